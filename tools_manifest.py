#!/usr/bin/env python3
"""Regenerates MANIFEST.json from the table below (run from /verif)."""
import json
props=[json.loads(l) for l in open('properties.jsonl')]
TITLE={p['id']:p['title'] for p in props}
BUILT={
 "C01":("exact evaluator of the source model vs certified exact MILP over the auxiliary variables, at ~120 directed assignments per compiled model","4/C01"),
 "C02":("source objective (exact evaluator) vs optimum of the linear objective over all auxiliary extensions (certified exact MILP); whole-model optimum/status for affine and all-discrete models","4/C02"),
 "C03":("source text (random layout, aliases, implicit multiplication, where-constants) -> RoocSolver + auto_solver in sacrificial workers, judged by the harness's exact interpreter of the generator's AST over the exhaustively enumerated domains","4/C03"),
 "C04":("certificate re-check of every returned solution against the model it came from, all five solver entry points, in sacrificial workers","4/C04"),
 "C05":("every solver verdict vs certified exact rational LP/MILP oracle (dual / Farkas / ray certificates), CPU-budget watchdog for 'never returns'","4/C05"),
 "C06":("data-driven program vs the harness's own hand-unrolled twin text, both through the real parser/transformer/linearizer, ordered row-by-row comparison; empty numeric aggregations must be rejected","4/C06"),
 "C07":("published ranges and hook-exposed derived ranges (full and truncated propagation) vs exact evaluation at source-feasible assignments and box points; certified true extremes for affine models","4/C07"),
 "C08":("structural well-formedness monitor on every compiled linear model (regular and hostile sources) + justification check of MissingFiniteBounds errors through hook H1","4/C08"),
 "C09":("compiled expression tree vs the harness's own precedence-climbing parser, exact evaluation at all assignments over {0..3}; exhaustive for flat sequences of up to 4 leaves at every run, random beyond","4/C09"),
 "C10":("exact evaluator before/after simplify, flatten and flatten+simplify (exhaustive for trees with <= 2 operators at every run, random beyond) + spelling twins compiled and compared by meaning with the certified aux MILP","4/C10"),
 "C11":("format(T) parses, formats to itself, type-checks/transforms like T and compiles to a model of equal meaning (exact evaluator on every expression pair, row comparison of linear models); exhaustive (parent, child, side) sweep at every run","4/C11"),
 "C12":("Model::to_string and LinearModel::to_string fed back through type check, transform and linearizer; row-multiset comparison after harmless normalisations, semantic comparison with the certified aux MILP, text fixed-point test","4/C12"),
 "C13":("exact point mapping both ways between model and standard form (vertices and rays under random objectives) + certified optimum/status equality, via guarded accessors","4/C13"),
 "C14":("invariant checker over the recorded pivot history of the real pivot loop (hook H3), every prefix; terminal event vs certified exact oracle","4/C14"),
 "C18":("totality monitor: every public stage and every error rendering under catch_unwind with a recording panic hook, inside sacrificial workers with CPU-time and address-space budgets (crash kind classified from the exit status); valid, mutated, noisy and deeply nested inputs","4/C18"),
 "C19":("mis-typed twins of valid programs: the type checker and the transformer must both reject, with the same error class at the injected span; data-independent errors may not wait for the transformer; well-typed programs must not be rejected by either","4/C19"),
 "C15":("time-limit x MIP-gap x door sweep with limits placed at fractions of each model's own unlimited solve time; every outcome judged by exact certificate and certified optimum (label Optimal only within the requested gap, Feasible only feasible, errors only when a limit could fire, invalid gaps rejected)","4/C15"),
 "C16":("differential monitor over the front doors: builder (two construction styles, random call order, macro corpus) vs text (constants in text / through the API) vs PipeRunner vs RoocSolver - identical linear models where trees are identical, equal meaning otherwise (certified aux MILP), equal verdict and optimum over seven solve doors; handle/name/eval read-back against the exact evaluator","4/C16"),
 "C20":("reported shadow prices vs exact finite differences of the certified optimum in each right-hand side (four quotients must coincide: differentiable, unique dual), three doors (LinearModel API, builder + shadow_price(name), text through RoocSolver), all sign/relation classes; for compiled models a reported price must at least lie in the exact subdifferential of the compiled model","4/C20"),
 "C17":("independent CPLEX-LP reader applied to every exported text, exact comparison with the model","4/C17"),
}
man={
 "version":1,
 "setup_cmd":"./check --setup",
 "hooks":{"guard":"cargo feature verif-hooks (packages/rooc/Cargo.toml), off by default",
          "enable":"harness/Cargo.toml depends on rooc by path with features=[\"verif-hooks\"]; ./check rebuilds against /repo's working tree",
          "baseline_off_cmd":"cd /repo/packages/rooc && (cargo nextest run --workspace --no-fail-fast --offline || cargo test --workspace --no-fail-fast --offline)",
          "source_commits":["21e085b","3ea6608","56548b6","8527055","935e53b"],"add_only":True},
 "engines":[{"name":"rv","path":"harness","serves_properties":sorted(BUILT),"kind_free_text":"Rust runtime-monitoring harness: generators, reference models (exact rational LP/MILP with certificates, exact evaluator, LP-format reader), monitors over executions of the real code, sacrificial worker subprocesses with CPU/memory budgets"},
            {"name":"rv-miri","path":"miri","serves_properties":["C18"],"kind_free_text":"sanitizer layer of the C18 thorough tier: a slice of the C18 corpus through the compiler stages under cargo +nightly miri, 16 sharded processes (miri/run.sh)"}],
 "checks":[],
 "notes":"Every check is `./check <id> <tier>`: rebuilds the harness (and rooc with hooks) from /repo's working tree, runs sharded workers, writes evidence/<id>.json, prints KNOWN-FINDING lines for entries of known_findings.json and VIOLATION lines (exit 1) for anything else; exit 2 + INCONCLUSIVE when a run did not reach its coverage thresholds.",
 "not_applicable":[]
}
for p in props:
    i=p['id']
    if i in BUILT:
        tech,ref=BUILT[i]
        man["checks"].append({
          "property_id":i,
          "quick_cmd":f"./check {i} quick",
          "thorough_cmd":f"./check {i} thorough",
          "evidence_file":f"evidence/{i}.json",
          "replay_cmd_template":f"./check {i} --replay {{path}}",
          "engine":"rv",
          "level_claimed":{"category":"exploration","text":f"Runtime monitor: {tech}. Held on the executions observed (counts, constructs and outcome classes are in the evidence file); nothing is proved.","design_ref":f"DESIGN.md section {ref}"},
          "level_note":"trusted base: the harness's certificate checker / evaluator / reader (small, exact arithmetic) and the generators' reach; sampled inputs only",
          "technique":"runtime monitoring: "+tech})
    else:
        man["not_applicable"].append({"property_id":i,"reason":"check under construction in this session (design in DESIGN.md section 4); not claimed until it runs on the pinned tree"})
json.dump(man,open('MANIFEST.json','w'),indent=1)
print(len(man['checks']),'checks')
