//! Expression texts as token sequences, and R-prec: an independent precedence-climbing parser whose
//! table is taken from the documented grammar (C09), not from rooc's Pratt table.
use crate::ast::*;

#[derive(Debug, Clone, PartialEq)]
pub enum Tok {
    Num(f64),
    Var(usize),
    Op(Bop),
    Neg,
    Not,
    LPar,
    RPar,
}

#[derive(Debug, Clone, Copy, PartialEq, Eq, Hash)]
pub enum Bop {
    Add,
    Sub,
    Mul,
    Div,
    And,
    Xor,
    Or,
    Implies,
    Iff,
}

pub const BOPS: [Bop; 9] = [
    Bop::Add,
    Bop::Sub,
    Bop::Mul,
    Bop::Div,
    Bop::And,
    Bop::Xor,
    Bop::Or,
    Bop::Implies,
    Bop::Iff,
];

impl Bop {
    /// documented precedence: * / above + - above and above xor above or above implies/iff
    pub fn prec(self) -> u8 {
        match self {
            Bop::Mul | Bop::Div => 6,
            Bop::Add | Bop::Sub => 5,
            Bop::And => 4,
            Bop::Xor => 3,
            Bop::Or => 2,
            Bop::Implies | Bop::Iff => 1,
        }
    }
    pub fn right_assoc(self) -> bool {
        self == Bop::Implies
    }
    pub fn keyword(self) -> &'static str {
        match self {
            Bop::Add => "+",
            Bop::Sub => "-",
            Bop::Mul => "*",
            Bop::Div => "/",
            Bop::And => "and",
            Bop::Xor => "xor",
            Bop::Or => "or",
            Bop::Implies => "implies",
            Bop::Iff => "iff",
        }
    }
    pub fn symbol(self) -> &'static str {
        match self {
            Bop::And => "&&",
            Bop::Or => "||",
            Bop::Implies => "->",
            Bop::Iff => "<->",
            other => other.keyword(),
        }
    }
    pub fn build(self, a: E, c: E) -> E {
        match self {
            Bop::Add => E::add(a, c),
            Bop::Sub => E::sub(a, c),
            Bop::Mul => E::mul(a, c),
            Bop::Div => E::div(a, c),
            Bop::And => E::And(vec![a, c]),
            Bop::Or => E::Or(vec![a, c]),
            Bop::Xor => E::Xor(b(a), b(c)),
            Bop::Implies => E::Implies(b(a), b(c)),
            Bop::Iff => E::Iff(b(a), b(c)),
        }
    }
    pub fn name(self) -> &'static str {
        match self {
            Bop::Add => "Add",
            Bop::Sub => "Sub",
            Bop::Mul => "Mul",
            Bop::Div => "Div",
            Bop::And => "And",
            Bop::Xor => "Xor",
            Bop::Or => "Or",
            Bop::Implies => "Implies",
            Bop::Iff => "Iff",
        }
    }
}

/// Text of a token sequence. `symbols` selects && || ! -> <->; `glue` writes implicit products
/// (a number or a closing parenthesis directly followed by a factor) without a space.
pub fn render(toks: &[Tok], names: &[String], symbols: bool) -> String {
    render_spaced(toks, names, symbols, false)
}

/// `tight` writes every operator that is not a word without blanks around it (a&&b, a->b, 2*-x).
pub fn render_spaced(toks: &[Tok], names: &[String], symbols: bool, tight: bool) -> String {
    let mut s = String::new();
    for (i, t) in toks.iter().enumerate() {
        let piece = match t {
            Tok::Num(f) => crate::text::num_text(*f),
            Tok::Var(v) => names[*v].clone(),
            Tok::Op(o) => {
                let w = if symbols { o.symbol() } else { o.keyword() };
                if tight && !w.chars().next().is_some_and(|c| c.is_alphabetic()) {
                    w.to_string()
                } else {
                    format!(" {w} ")
                }
            }
            Tok::Neg => "-".to_string(),
            Tok::Not => {
                if symbols {
                    "!".to_string()
                } else {
                    "not ".to_string()
                }
            }
            Tok::LPar => "(".to_string(),
            Tok::RPar => ")".to_string(),
        };
        // a space is needed between two word-like pieces that are not an implicit product
        if i > 0 {
            let prev_word = s.chars().last().is_some_and(|c| c.is_alphanumeric() || c == '_');
            let next_word = piece.chars().next().is_some_and(|c| c.is_alphanumeric() || c == '_');
            let implicit = matches!(toks[i - 1], Tok::Num(_)) && matches!(t, Tok::Var(_));
            if prev_word && next_word && !implicit {
                s.push(' ');
            }
        }
        s.push_str(&piece);
    }
    s
}

pub struct RPrec<'a> {
    toks: &'a [Tok],
    pos: usize,
}

impl<'a> RPrec<'a> {
    pub fn parse(toks: &'a [Tok]) -> Option<E> {
        let mut p = RPrec { toks, pos: 0 };
        let e = p.expr(0)?;
        if p.pos == toks.len() { Some(e) } else { None }
    }
    fn peek(&self) -> Option<&Tok> {
        self.toks.get(self.pos)
    }
    /// one factor of an implicit product: number or parenthesis
    fn simple_factor(&mut self) -> Option<E> {
        match self.peek()? {
            Tok::Num(f) => {
                let v = *f;
                self.pos += 1;
                Some(E::Num(v))
            }
            Tok::LPar => {
                self.pos += 1;
                let e = self.expr(0)?;
                if self.peek()? != &Tok::RPar {
                    return None;
                }
                self.pos += 1;
                Some(e)
            }
            _ => None,
        }
    }
    /// a leaf: variable, number, parenthesis, or an implicit product (numbers/parentheses, then
    /// optionally one variable) which forms a single factor
    fn leaf(&mut self) -> Option<E> {
        if let Some(Tok::Var(v)) = self.peek() {
            let v = *v;
            self.pos += 1;
            return Some(E::Var(v));
        }
        let mut prod = self.simple_factor()?;
        loop {
            match self.peek() {
                Some(Tok::Num(_)) | Some(Tok::LPar) => {
                    let f = self.simple_factor()?;
                    prod = E::mul(prod, f);
                }
                Some(Tok::Var(v)) => {
                    let v = *v;
                    self.pos += 1;
                    prod = E::mul(prod, E::Var(v));
                    break;
                }
                _ => break,
            }
        }
        Some(prod)
    }
    fn prefixed(&mut self) -> Option<E> {
        match self.peek()? {
            Tok::Neg => {
                self.pos += 1;
                Some(E::Neg(b(self.leaf()?)))
            }
            Tok::Not => {
                self.pos += 1;
                Some(E::Not(b(self.leaf()?)))
            }
            _ => self.leaf(),
        }
    }
    fn expr(&mut self, min: u8) -> Option<E> {
        let mut lhs = self.prefixed()?;
        loop {
            let op = match self.peek() {
                Some(Tok::Op(o)) => *o,
                _ => break,
            };
            if op.prec() < min {
                break;
            }
            self.pos += 1;
            let next_min = if op.right_assoc() { op.prec() } else { op.prec() + 1 };
            let rhs = self.expr(next_min)?;
            lhs = op.build(lhs, rhs);
        }
        Some(lhs)
    }
}

/// Flat sequences `p0 v0 o0 p1 v1 o1 ...` with leaves a, b, c, d in order. Index-addressable so
/// that the exhaustive space can be split over units.
pub fn flat_sequence(n: usize, mut idx: usize) -> Vec<Tok> {
    // 3 prefixes per leaf (none, neg, not), 9 operators between leaves
    let mut toks = vec![];
    let mut prefixes = vec![];
    for _ in 0..n {
        prefixes.push(idx % 3);
        idx /= 3;
    }
    let mut ops = vec![];
    for _ in 0..n.saturating_sub(1) {
        ops.push(idx % 9);
        idx /= 9;
    }
    for i in 0..n {
        match prefixes[i] {
            1 => toks.push(Tok::Neg),
            2 => toks.push(Tok::Not),
            _ => {}
        }
        toks.push(Tok::Var(i));
        if i + 1 < n {
            toks.push(Tok::Op(BOPS[ops[i]]));
        }
    }
    toks
}

pub fn flat_count(n: usize) -> usize {
    3usize.pow(n as u32) * 9usize.pow(n.saturating_sub(1) as u32)
}
