//! G-text: ROOC source text from the harness AST, with its own precedence table (taken from
//! the language documentation, not from rooc), random layout, aliases, implicit
//! multiplication, named constraints and where-constants.
use crate::ast::*;
use rand::Rng;
use rand_chacha::ChaCha8Rng;

#[derive(Debug, Clone, Copy)]
pub struct Style {
    pub symbols: bool,       // && || ! -> <-> instead of keywords
    pub implicit_mul: bool,  // 2x, 2(x + 1)
    pub blocks: bool,        // all{..}/any{..} instead of infix chains
    pub extra_parens: u32,   // percent chance of a redundant pair of parentheses
    pub where_consts: bool,
    pub comments: bool,
    pub subject_to: bool,
    pub tight: bool, // fewer spaces
    pub decimal_points: bool, // integral literals sometimes written 3.0
    pub computed_consts: bool, // where-constants written as a - b / a + b with an integer and a decimal
    pub short_domains: bool,   // Real(lo) / NonNegativeReal(lo) when the upper bound is infinite
}

impl Style {
    pub fn random(rng: &mut ChaCha8Rng) -> Style {
        Style {
            symbols: rng.gen_bool(0.4),
            implicit_mul: rng.gen_bool(0.5),
            blocks: rng.gen_bool(0.3),
            extra_parens: [0, 0, 10, 30][rng.gen_range(0..4)],
            where_consts: rng.gen_bool(0.4),
            comments: rng.gen_bool(0.3),
            subject_to: rng.gen_bool(0.2),
            tight: rng.gen_bool(0.2),
            decimal_points: rng.gen_bool(0.25),
            computed_consts: rng.gen_bool(0.4),
            short_domains: rng.gen_bool(0.5),
        }
    }
    pub fn plain() -> Style {
        Style {
            symbols: false,
            implicit_mul: false,
            blocks: false,
            extra_parens: 0,
            where_consts: false,
            comments: false,
            subject_to: false,
            tight: false,
            decimal_points: false,
            computed_consts: false,
            short_domains: false,
        }
    }
}

pub fn num_text(f: f64) -> String {
    let a = f.abs();
    if a == a.trunc() && a < 1e15 {
        format!("{}", a as i64)
    } else if a == a.trunc() && a.is_finite() {
        // an integer literal has to fit 64 bits: large integral values are written as decimals
        format!("{:.1}", a)
    } else {
        let s = format!("{}", a);
        if s.contains('e') || s.contains("inf") || s.contains("NaN") {
            // the grammar has no exponent form: spell the decimal expansion
            format!("{:.12}", a)
        } else {
            s
        }
    }
}

pub struct Printer<'a> {
    pub names: &'a [String],
    pub style: Style,
    pub rng: &'a mut ChaCha8Rng,
    /// (name, value) of where-constants introduced so far
    pub consts: Vec<(String, f64)>,
}

impl<'a> Printer<'a> {
    fn sp(&self) -> &'static str {
        if self.style.tight { "" } else { " " }
    }

    fn literal(&mut self, a: f64) -> String {
        // a non-negative literal, possibly through a named constant
        if self.style.where_consts && self.rng.gen_bool(0.3) && self.consts.len() < 6 {
            if let Some((n, _)) = self.consts.iter().find(|(_, v)| *v == a) {
                return n.clone();
            }
            let n = format!("q{}", self.consts.len() + 1);
            self.consts.push((n.clone(), a));
            return n;
        }
        if self.style.decimal_points && a == a.trunc() && a < 1e15 && self.rng.gen_bool(0.3) {
            return format!("{}.0", a as i64);
        }
        num_text(a)
    }

    /// Renders `e` so that it can stand where an operand of precedence >= `min` is required.
    pub fn p(&mut self, e: &E, min: u8, logic: bool) -> String {
        let (s, prec) = self.render(e, logic);
        let redundant = self.style.extra_parens > 0 && self.rng.gen_range(0..100) < self.style.extra_parens;
        if prec < min || redundant {
            format!("({s})")
        } else {
            s
        }
    }

    fn bin(&mut self, op: &str, l: String, r: String) -> String {
        // word operators always need spaces
        let word = op.chars().next().unwrap().is_alphabetic();
        if self.style.tight && !word {
            format!("{l}{op}{r}")
        } else {
            format!("{l} {op} {r}")
        }
    }

    fn render(&mut self, e: &E, logic: bool) -> (String, u8) {
        let sym = self.style.symbols;
        match e {
            E::Num(f) => {
                if logic && (*f == 0.0 || *f == 1.0) {
                    return ((if *f == 1.0 { "true" } else { "false" }).to_string(), 8);
                }
                if *f < 0.0 || (*f == 0.0 && f.is_sign_negative()) {
                    (format!("-{}", self.literal(f.abs())), 7)
                } else {
                    (self.literal(*f), 8)
                }
            }
            E::Var(i) => (self.names[*i].clone(), 8),
            E::Abs(a) => {
                let inner = self.p(a, 0, false);
                (format!("abs{}{{{}{}{}}}", self.sp(), self.sp(), inner, self.sp()), 8)
            }
            E::Min(es) | E::Max(es) => {
                let name = if matches!(e, E::Min(_)) { "min" } else { "max" };
                let parts: Vec<String> = es.iter().map(|x| self.p(x, 0, false)).collect();
                (format!("{name}{}{{{}{}{}}}", self.sp(), self.sp(), parts.join(", "), self.sp()), 8)
            }
            E::And(es) | E::Or(es) => {
                let is_and = matches!(e, E::And(_));
                if self.style.blocks || es.len() < 2 {
                    let parts: Vec<String> = es.iter().map(|x| self.p(x, 0, true)).collect();
                    // the long aliases now and then
                    let long = parts.join(", ").len() % 3 == 0;
                    let name = match (is_and, long) {
                        (true, false) => "all",
                        (true, true) => "conjunction",
                        (false, false) => "any",
                        (false, true) => "disjunction",
                    };
                    (format!("{name} {{ {} }}", parts.join(", ")), 8)
                } else {
                    let (op, prec) = if is_and {
                        (if sym { "&&" } else { "and" }, 4u8)
                    } else {
                        (if sym { "||" } else { "or" }, 2u8)
                    };
                    let mut s = self.p(&es[0], prec, true);
                    for x in &es[1..] {
                        let r = self.p(x, prec + 1, true);
                        s = self.bin(op, s, r);
                    }
                    (s, prec)
                }
            }
            E::Not(a) => {
                let inner = self.p(a, 8, true);
                if sym { (format!("!{inner}"), 7) } else { (format!("not {inner}"), 7) }
            }
            E::Xor(a, c) => {
                let l = self.p(a, 3, true);
                let r = self.p(c, 4, true);
                (self.bin("xor", l, r), 3)
            }
            E::Implies(a, c) => {
                let l = self.p(a, 2, true);
                let rmin = if matches!(**c, E::Implies(..) | E::Iff(..)) && self.rng.gen_bool(0.5) { 1 } else { 2 };
                let r = self.p(c, rmin, true);
                let op = if sym { "->" } else { "implies" };
                (self.bin(op, l, r), 1)
            }
            E::Iff(a, c) => {
                let lmin = if matches!(**a, E::Iff(..)) && self.rng.gen_bool(0.5) { 1 } else { 2 };
                let l = self.p(a, lmin, true);
                let r = self.p(c, 2, true);
                let op = if sym { "<->" } else { "iff" };
                (self.bin(op, l, r), 1)
            }
            E::Add(a, c) => {
                let l = self.p(a, 5, false);
                let r = self.p(c, 6, false);
                (self.bin("+", l, r), 5)
            }
            E::Sub(a, c) => {
                let l = self.p(a, 5, false);
                let r = self.p(c, 6, false);
                (self.bin("-", l, r), 5)
            }
            E::Mul(a, c) => {
                // implicit multiplication: non-negative literal followed by a variable or a parenthesis
                if self.style.implicit_mul {
                    if let E::Num(f) = **a {
                        if f >= 0.0 && !(f == 0.0 && f.is_sign_negative()) {
                            let lit = num_text(f);
                            match &**c {
                                E::Var(i) if self.rng.gen_bool(0.8) => {
                                    return (format!("{lit}{}", self.names[*i]), 8);
                                }
                                E::Add(..) | E::Sub(..) if self.rng.gen_bool(0.8) => {
                                    let inner = self.p(c, 0, false);
                                    return (format!("{lit}({inner})"), 8);
                                }
                                _ => {}
                            }
                        }
                    }
                }
                let l = self.p(a, 6, false);
                let r = self.p(c, 7, false);
                (self.bin("*", l, r), 6)
            }
            E::Div(a, c) => {
                let l = self.p(a, 6, false);
                let r = self.p(c, 7, false);
                (self.bin("/", l, r), 6)
            }
            E::Neg(a) => {
                let inner = self.p(a, 8, false);
                (format!("-{inner}"), 7)
            }
        }
    }
}

fn type_text(t: &VT) -> String {
    t.show()
}

/// Full program text for a model.
pub fn model_text(m: &M, rng: &mut ChaCha8Rng, style: Style) -> String {
    model_text_ex(m, rng, style, false).0
}

/// Like `model_text`; with `omit_where` the where-section is left out and the named constants
/// (returned in any case) have to be supplied through the API.
pub fn model_text_ex(m: &M, rng: &mut ChaCha8Rng, style: Style, omit_where: bool) -> (String, Vec<(String, f64)>) {
    let mut pr = Printer { names: &m.names, style, rng, consts: vec![] };
    let mut out = String::new();
    if style.comments {
        out.push_str("// generated model\n");
    }
    match m.sense {
        Sense::Min => out.push_str(&format!("min {}\n", pr.p(&m.obj, 0, false))),
        Sense::Max => out.push_str(&format!("max {}\n", pr.p(&m.obj, 0, false))),
        Sense::Satisfy => out.push_str("solve\n"),
    }
    out.push_str(if style.subject_to { "subject to\n" } else { "s.t.\n" });
    for (k, c) in m.cons.iter().enumerate() {
        let name = match &c.name {
            Some(n) => format!("{n}: "),
            None => String::new(),
        };
        let body = match &c.kind {
            CKind::Cmp(l, cmp, r) => {
                let logic_l = l.is_logic_root();
                let ls = pr.p(l, 0, logic_l);
                let rs = pr.p(r, 0, false);
                format!("{ls} {} {rs}", cmp.sym())
            }
            CKind::Assert(e) => pr.p(e, 0, true),
        };
        let indent = if pr.style.tight { "  " } else { "    " };
        out.push_str(&format!("{indent}{name}{body}\n"));
        if pr.style.comments && k == 0 {
            out.push_str("    /* block\n       comment */\n");
        }
    }
    if m.cons.is_empty() {
        // the grammar needs a line break between an empty constraint list and the next section
        out.push('\n');
    }
    if !pr.consts.is_empty() && !omit_where {
        out.push_str("where\n");
        for (n, v) in &pr.consts {
            // dyadic values can be written exactly as integer - decimal or integer + decimal
            let quarter = (*v * 4.0).fract() == 0.0 && v.fract() != 0.0 && *v < 1e6;
            if pr.style.computed_consts && quarter && pr.rng.gen_bool(0.6) {
                let up = v.ceil();
                if pr.rng.gen_bool(0.5) {
                    out.push_str(&format!("    let {n} = {} - {}\n", num_text(up + 1.0), num_text(up + 1.0 - *v)));
                } else {
                    out.push_str(&format!("    let {n} = {} + {}\n", num_text(v.floor()), num_text(*v - v.floor())));
                }
            } else {
                out.push_str(&format!("    let {n} = {}\n", num_text(*v)));
            }
        }
    }
    out.push_str("define\n");
    // group variables of equal type on one line sometimes
    let mut i = 0;
    while i < m.n() {
        let mut group = vec![m.names[i].clone()];
        let mut j = i + 1;
        while j < m.n() && m.types[j] == m.types[i] && pr.rng.gen_bool(0.5) {
            group.push(m.names[j].clone());
            j += 1;
        }
        let ty = match &m.types[i] {
            VT::Real(lo, hi) if pr.style.short_domains && lo.is_finite() && *hi == f64::INFINITY => format!("Real({})", if *lo < 0.0 { format!("-{}", num_text(*lo)) } else { num_text(*lo) }),
            VT::NonNeg(lo, hi) if pr.style.short_domains && *lo > 0.0 && *hi == f64::INFINITY => format!("NonNegativeReal({})", num_text(*lo)),
            t => type_text(t),
        };
        out.push_str(&format!("    {} as {}\n", group.join(", "), ty));
        i = j;
    }
    let consts = pr.consts.clone();
    (out, consts)
}
