//! R-lp: exact rational LP / MILP decision procedure with certified answers.
//!
//! The pivoting code is *not* trusted: every LP answer is re-checked by
//! `certify_*` in exact arithmetic (primal point + dual multipliers, Farkas
//! multipliers, or feasible point + improving ray). MILP answers are a
//! branch-and-bound tree whose every leaf is a certified LP answer.
use crate::rat::*;
use num_traits::{Signed, Zero};

#[derive(Debug, Clone, Copy, PartialEq, Eq)]
pub enum Rel {
    Le,
    Ge,
    Eq,
}

#[derive(Debug, Clone)]
pub struct LpVar {
    pub lo: Option<Q>,
    pub hi: Option<Q>,
    pub int: bool,
}

#[derive(Debug, Clone)]
pub struct LpRow {
    pub a: Vec<Q>,
    pub rel: Rel,
    pub b: Q,
}

#[derive(Debug, Clone)]
pub struct Lp {
    pub vars: Vec<LpVar>,
    pub rows: Vec<LpRow>,
    pub c: Vec<Q>,
    pub c0: Q,
    pub maximize: bool,
}

#[derive(Debug, Clone)]
pub enum LpAnswer {
    /// objective value is in the user's sense (includes c0)
    Optimal { x: Vec<Q>, value: Q },
    Infeasible,
    Unbounded { x: Vec<Q>, ray: Vec<Q> },
}

impl LpAnswer {
    pub fn kind(&self) -> &'static str {
        match self {
            LpAnswer::Optimal { .. } => "optimal",
            LpAnswer::Infeasible => "infeasible",
            LpAnswer::Unbounded { .. } => "unbounded",
        }
    }
}

#[derive(Debug, Clone)]
pub enum OracleFail {
    Certificate(String),
    NodeLimit,
    PivotLimit,
}

impl std::fmt::Display for OracleFail {
    fn fmt(&self, f: &mut std::fmt::Formatter<'_>) -> std::fmt::Result {
        match self {
            OracleFail::Certificate(s) => write!(f, "certificate failed: {s}"),
            OracleFail::NodeLimit => write!(f, "branch-and-bound node limit"),
            OracleFail::PivotLimit => write!(f, "pivot limit"),
        }
    }
}

impl Lp {
    pub fn n(&self) -> usize {
        self.vars.len()
    }
    pub fn objective_at(&self, x: &[Q]) -> Q {
        let mut v = self.c0.clone();
        for (c, xi) in self.c.iter().zip(x) {
            if !c.is_zero() {
                v += c * xi;
            }
        }
        v
    }
    pub fn row_activity(&self, r: usize, x: &[Q]) -> Q {
        let mut v = zero();
        for (a, xi) in self.rows[r].a.iter().zip(x) {
            if !a.is_zero() {
                v += a * xi;
            }
        }
        v
    }
    /// Exact feasibility of a point for rows and bounds (integrality optional).
    pub fn is_feasible(&self, x: &[Q], check_int: bool) -> bool {
        if x.len() != self.n() {
            return false;
        }
        for (v, xi) in self.vars.iter().zip(x) {
            if let Some(lo) = &v.lo {
                if xi < lo {
                    return false;
                }
            }
            if let Some(hi) = &v.hi {
                if xi > hi {
                    return false;
                }
            }
            if check_int && v.int && !xi.is_integer() {
                return false;
            }
        }
        for r in 0..self.rows.len() {
            let act = self.row_activity(r, x);
            let ok = match self.rows[r].rel {
                Rel::Le => act <= self.rows[r].b,
                Rel::Ge => act >= self.rows[r].b,
                Rel::Eq => act == self.rows[r].b,
            };
            if !ok {
                return false;
            }
        }
        true
    }
}

// ---------------------------------------------------------------------------
// standard form:  min cs·u  s.t.  A u = b, u >= 0, b >= 0
// ---------------------------------------------------------------------------

#[derive(Debug, Clone)]
enum VarMap {
    /// x = lo + u[k]
    Shift(Q, usize),
    /// x = hi - u[k]
    Flip(Q, usize),
    /// x = u[p] - u[m]
    Split(usize, usize),
}

struct Std {
    ncols: usize,
    a: Vec<Vec<Q>>,
    b: Vec<Q>,
    cs: Vec<Q>,
    const_term: Q, // min-sense objective = cs·u + const_term
    map: Vec<VarMap>,
    trivially_infeasible: bool,
}

fn to_std(lp: &Lp) -> Std {
    let n = lp.n();
    let mut map = Vec::with_capacity(n);
    let mut ncols = 0usize;
    let mut extra_rows: Vec<(usize, Q)> = Vec::new(); // u[k] <= width
    let mut trivially_infeasible = false;
    for v in &lp.vars {
        match (&v.lo, &v.hi) {
            (Some(lo), hi) => {
                let k = ncols;
                ncols += 1;
                if let Some(hi) = hi {
                    let width = hi - lo;
                    if width.is_negative() {
                        trivially_infeasible = true;
                    }
                    extra_rows.push((k, width));
                }
                map.push(VarMap::Shift(lo.clone(), k));
            }
            (None, Some(hi)) => {
                let k = ncols;
                ncols += 1;
                map.push(VarMap::Flip(hi.clone(), k));
            }
            (None, None) => {
                let p = ncols;
                let m = ncols + 1;
                ncols += 2;
                map.push(VarMap::Split(p, m));
            }
        }
    }
    // objective in min sense
    let sign = if lp.maximize { -one() } else { one() };
    let mut cs = vec![zero(); ncols];
    let mut const_term = &sign * &lp.c0;
    for (j, c) in lp.c.iter().enumerate() {
        if c.is_zero() {
            continue;
        }
        let c = &sign * c;
        match &map[j] {
            VarMap::Shift(lo, k) => {
                cs[*k] += &c;
                const_term += &c * lo;
            }
            VarMap::Flip(hi, k) => {
                cs[*k] -= &c;
                const_term += &c * hi;
            }
            VarMap::Split(p, m) => {
                cs[*p] += &c;
                cs[*m] -= &c;
            }
        }
    }
    // rows
    let mut rows: Vec<(Vec<Q>, Rel, Q)> = Vec::new();
    for r in &lp.rows {
        let mut a = vec![zero(); ncols];
        let mut b = r.b.clone();
        for (j, aj) in r.a.iter().enumerate() {
            if aj.is_zero() {
                continue;
            }
            match &map[j] {
                VarMap::Shift(lo, k) => {
                    a[*k] += aj;
                    b -= aj * lo;
                }
                VarMap::Flip(hi, k) => {
                    a[*k] -= aj;
                    b -= aj * hi;
                }
                VarMap::Split(p, m) => {
                    a[*p] += aj;
                    a[*m] -= aj;
                }
            }
        }
        rows.push((a, r.rel, b));
    }
    for (k, width) in extra_rows {
        let mut a = vec![zero(); ncols];
        a[k] = one();
        rows.push((a, Rel::Le, width));
    }
    // slacks
    let nslack = rows.iter().filter(|r| r.1 != Rel::Eq).count();
    let total = ncols + nslack;
    let mut a_out = Vec::with_capacity(rows.len());
    let mut b_out = Vec::with_capacity(rows.len());
    let mut s = ncols;
    for (mut a, rel, mut b) in rows {
        a.resize(total, zero());
        match rel {
            Rel::Le => {
                a[s] = one();
                s += 1;
            }
            Rel::Ge => {
                a[s] = -one();
                s += 1;
            }
            Rel::Eq => {}
        }
        if b.is_negative() {
            for v in a.iter_mut() {
                if !v.is_zero() {
                    *v = -v.clone();
                }
            }
            b = -b;
        }
        a_out.push(a);
        b_out.push(b);
    }
    cs.resize(total, zero());
    Std {
        ncols: total,
        a: a_out,
        b: b_out,
        cs,
        const_term,
        map,
        trivially_infeasible,
    }
}

fn map_back(std: &Std, u: &[Q]) -> Vec<Q> {
    std.map
        .iter()
        .map(|m| match m {
            VarMap::Shift(lo, k) => lo + &u[*k],
            VarMap::Flip(hi, k) => hi - &u[*k],
            VarMap::Split(p, m) => &u[*p] - &u[*m],
        })
        .collect()
}

fn map_back_dir(std: &Std, d: &[Q]) -> Vec<Q> {
    std.map
        .iter()
        .map(|m| match m {
            VarMap::Shift(_, k) => d[*k].clone(),
            VarMap::Flip(_, k) => -d[*k].clone(),
            VarMap::Split(p, m) => &d[*p] - &d[*m],
        })
        .collect()
}

// ---------------------------------------------------------------------------
// tableau simplex (Bland), columns = structural(ncols) + artificial(m)
// ---------------------------------------------------------------------------

struct Tab {
    m: usize,
    nc: usize, // structural columns
    t: Vec<Vec<Q>>, // m x (nc + m + 1)
    cost: Vec<Q>, // nc + m + 1 ; last = -objective
    basis: Vec<usize>,
}

impl Tab {
    fn width(&self) -> usize {
        self.nc + self.m + 1
    }
    fn pivot(&mut self, r: usize, c: usize) {
        let w = self.width();
        let p = self.t[r][c].clone();
        if p != one() {
            for j in 0..w {
                if !self.t[r][j].is_zero() {
                    self.t[r][j] = &self.t[r][j] / &p;
                }
            }
        }
        let prow = self.t[r].clone();
        for i in 0..self.m {
            if i == r {
                continue;
            }
            let f = self.t[i][c].clone();
            if f.is_zero() {
                continue;
            }
            for j in 0..w {
                if !prow[j].is_zero() {
                    self.t[i][j] -= &f * &prow[j];
                }
            }
        }
        let f = self.cost[c].clone();
        if !f.is_zero() {
            for j in 0..w {
                if !prow[j].is_zero() {
                    self.cost[j] -= &f * &prow[j];
                }
            }
        }
        self.basis[r] = c;
    }

    /// Bland's rule over columns `0..limit_col`. Ok(None) = optimal, Ok(Some(col)) = unbounded column.
    fn run(&mut self, limit_col: usize) -> Result<Option<usize>, OracleFail> {
        let rhs = self.width() - 1;
        let mut pivots = 0usize;
        loop {
            let mut enter = None;
            for j in 0..limit_col {
                if self.cost[j].is_negative() {
                    enter = Some(j);
                    break;
                }
            }
            let Some(c) = enter else { return Ok(None) };
            let mut leave: Option<(usize, Q)> = None;
            for i in 0..self.m {
                if self.t[i][c].is_positive() {
                    let ratio = &self.t[i][rhs] / &self.t[i][c];
                    match &leave {
                        None => leave = Some((i, ratio)),
                        Some((li, lr)) => {
                            if ratio < *lr || (ratio == *lr && self.basis[i] < self.basis[*li]) {
                                leave = Some((i, ratio));
                            }
                        }
                    }
                }
            }
            let Some((r, _)) = leave else { return Ok(Some(c)) };
            self.pivot(r, c);
            pivots += 1;
            if pivots > 20_000 {
                return Err(OracleFail::PivotLimit);
            }
        }
    }

    fn basic_solution(&self) -> Vec<Q> {
        let rhs = self.width() - 1;
        let mut u = vec![zero(); self.nc + self.m];
        for (i, &bj) in self.basis.iter().enumerate() {
            u[bj] = self.t[i][rhs].clone();
        }
        u
    }
}

enum StdAnswer {
    Optimal { u: Vec<Q>, y: Vec<Q> },
    Infeasible { y: Vec<Q> },
    Unbounded { u: Vec<Q>, d: Vec<Q> },
}

fn solve_std(std: &Std) -> Result<StdAnswer, OracleFail> {
    let m = std.a.len();
    let nc = std.ncols;
    let w = nc + m + 1;
    let mut t = Vec::with_capacity(m);
    for i in 0..m {
        let mut row = std.a[i].clone();
        row.resize(w, zero());
        row[nc + i] = one();
        row[w - 1] = std.b[i].clone();
        t.push(row);
    }
    // phase 1 reduced costs: structural -sum_i a_ij ; artificial 0 ; value -sum b
    let mut cost = vec![zero(); w];
    for i in 0..m {
        for j in 0..nc {
            if !t[i][j].is_zero() {
                cost[j] -= &t[i][j];
            }
        }
        cost[w - 1] -= &t[i][w - 1];
    }
    let mut tab = Tab {
        m,
        nc,
        t,
        cost,
        basis: (nc..nc + m).collect(),
    };
    match tab.run(nc)? {
        None => {}
        Some(_) => {
            return Err(OracleFail::Certificate(
                "phase 1 reported unbounded".to_string(),
            ));
        }
    }
    let phase1 = -tab.cost[w - 1].clone();
    if phase1.is_positive() {
        // y_i = 1 - reduced cost of artificial i
        let y = (0..m).map(|i| one() - &tab.cost[nc + i]).collect();
        return Ok(StdAnswer::Infeasible { y });
    }
    // drive artificials out where possible
    for i in 0..m {
        if tab.basis[i] >= nc {
            if let Some(j) = (0..nc).find(|&j| !tab.t[i][j].is_zero()) {
                tab.pivot(i, j);
            }
        }
    }
    // phase 2 reduced costs from scratch (artificial cost 0)
    let mut cost = vec![zero(); w];
    for j in 0..nc {
        cost[j] = std.cs[j].clone();
    }
    for i in 0..m {
        let bj = tab.basis[i];
        let cb = if bj < nc { std.cs[bj].clone() } else { zero() };
        if cb.is_zero() {
            continue;
        }
        for j in 0..w {
            if !tab.t[i][j].is_zero() {
                cost[j] -= &cb * &tab.t[i][j];
            }
        }
    }
    tab.cost = cost;
    match tab.run(nc)? {
        None => {
            let u = tab.basic_solution();
            let y = (0..m).map(|i| -tab.cost[nc + i].clone()).collect();
            Ok(StdAnswer::Optimal {
                u: u[..nc].to_vec(),
                y,
            })
        }
        Some(c) => {
            let u = tab.basic_solution();
            let mut d = vec![zero(); nc];
            d[c] = one();
            for i in 0..m {
                let bj = tab.basis[i];
                if bj < nc {
                    d[bj] = -tab.t[i][c].clone();
                } else if !tab.t[i][c].is_zero() {
                    return Err(OracleFail::Certificate(
                        "artificial moves along the ray".to_string(),
                    ));
                }
            }
            Ok(StdAnswer::Unbounded {
                u: u[..nc].to_vec(),
                d,
            })
        }
    }
}

// ---------------------------------------------------------------------------
// certificate checks (the trusted part)
// ---------------------------------------------------------------------------

fn col_dot(std: &Std, j: usize, y: &[Q]) -> Q {
    let mut v = zero();
    for i in 0..std.a.len() {
        if !std.a[i][j].is_zero() && !y[i].is_zero() {
            v += &std.a[i][j] * &y[i];
        }
    }
    v
}

fn dot(a: &[Q], b: &[Q]) -> Q {
    let mut v = zero();
    for (x, y) in a.iter().zip(b) {
        if !x.is_zero() && !y.is_zero() {
            v += x * y;
        }
    }
    v
}

fn std_primal_ok(std: &Std, u: &[Q]) -> bool {
    if u.iter().any(|v| v.is_negative()) {
        return false;
    }
    for i in 0..std.a.len() {
        if dot(&std.a[i], u) != std.b[i] {
            return false;
        }
    }
    true
}

fn certify_optimal(std: &Std, u: &[Q], y: &[Q]) -> Result<(), String> {
    if !std_primal_ok(std, u) {
        return Err("primal point infeasible in standard form".into());
    }
    for j in 0..std.ncols {
        if col_dot(std, j, y) > std.cs[j] {
            return Err(format!("dual infeasible at column {j}"));
        }
    }
    if dot(&std.b, y) != dot(&std.cs, u) {
        return Err("duality gap".into());
    }
    Ok(())
}

fn certify_infeasible(std: &Std, y: &[Q]) -> Result<(), String> {
    for j in 0..std.ncols {
        if col_dot(std, j, y).is_positive() {
            return Err(format!("Farkas multipliers fail at column {j}"));
        }
    }
    if !dot(&std.b, y).is_positive() {
        return Err("Farkas multipliers: b·y <= 0".into());
    }
    Ok(())
}

fn certify_unbounded(std: &Std, u: &[Q], d: &[Q]) -> Result<(), String> {
    if !std_primal_ok(std, u) {
        return Err("ray base point infeasible".into());
    }
    if d.iter().any(|v| v.is_negative()) {
        return Err("ray has a negative component".into());
    }
    for i in 0..std.a.len() {
        if !dot(&std.a[i], d).is_zero() {
            return Err("ray leaves the equality system".into());
        }
    }
    if !dot(&std.cs, d).is_negative() {
        return Err("ray does not improve".into());
    }
    Ok(())
}

/// Solves the continuous relaxation (integrality ignored) with a certified answer.
pub fn solve_lp(lp: &Lp) -> Result<LpAnswer, OracleFail> {
    let std = to_std(lp);
    if std.trivially_infeasible {
        return Ok(LpAnswer::Infeasible);
    }
    match solve_std(&std)? {
        StdAnswer::Optimal { u, y } => {
            certify_optimal(&std, &u, &y).map_err(OracleFail::Certificate)?;
            let x = map_back(&std, &u);
            if !lp.is_feasible(&x, false) {
                return Err(OracleFail::Certificate(
                    "mapped point infeasible in the original model".into(),
                ));
            }
            let value = lp.objective_at(&x);
            let min_value = dot(&std.cs, &u) + &std.const_term;
            let expect = if lp.maximize { -min_value } else { min_value };
            if expect != value {
                return Err(OracleFail::Certificate(
                    "objective mismatch after mapping".into(),
                ));
            }
            Ok(LpAnswer::Optimal { x, value })
        }
        StdAnswer::Infeasible { y } => {
            certify_infeasible(&std, &y).map_err(OracleFail::Certificate)?;
            Ok(LpAnswer::Infeasible)
        }
        StdAnswer::Unbounded { u, d } => {
            certify_unbounded(&std, &u, &d).map_err(OracleFail::Certificate)?;
            let x = map_back(&std, &u);
            let ray = map_back_dir(&std, &d);
            if !lp.is_feasible(&x, false) {
                return Err(OracleFail::Certificate(
                    "mapped ray base infeasible in the original model".into(),
                ));
            }
            // the mapped ray must improve the user's objective and keep rows satisfied
            let improve = dot(&lp.c, &ray);
            let ok_dir = if lp.maximize {
                improve.is_positive()
            } else {
                improve.is_negative()
            };
            if !ok_dir {
                return Err(OracleFail::Certificate("mapped ray does not improve".into()));
            }
            let step: Vec<Q> = x.iter().zip(&ray).map(|(a, b)| a + b).collect();
            if !lp.is_feasible(&step, false) {
                return Err(OracleFail::Certificate("x + ray infeasible".into()));
            }
            Ok(LpAnswer::Unbounded { x, ray })
        }
    }
}

// ---------------------------------------------------------------------------
// MILP by depth-first branch and bound with exact relaxations
// ---------------------------------------------------------------------------

pub struct MilpStats {
    pub nodes: usize,
}

fn first_fractional(lp: &Lp, x: &[Q]) -> Option<usize> {
    (0..lp.n()).find(|&j| lp.vars[j].int && !x[j].is_integer())
}

fn tighten_int_bounds(lp: &mut Lp) -> bool {
    for v in lp.vars.iter_mut() {
        if v.int {
            if let Some(lo) = &v.lo {
                v.lo = Some(lo.ceil());
            }
            if let Some(hi) = &v.hi {
                v.hi = Some(hi.floor());
            }
        }
        if let (Some(lo), Some(hi)) = (&v.lo, &v.hi) {
            if lo > hi {
                return false;
            }
        }
    }
    true
}

fn bb_feasible(
    lp: &Lp,
    nodes: &mut usize,
    limit: usize,
) -> Result<Option<Vec<Q>>, OracleFail> {
    *nodes += 1;
    if *nodes > limit {
        return Err(OracleFail::NodeLimit);
    }
    let mut zero_obj = lp.clone();
    zero_obj.c = vec![zero(); lp.n()];
    if !tighten_int_bounds(&mut zero_obj) {
        return Ok(None);
    }
    match solve_lp(&zero_obj)? {
        LpAnswer::Infeasible => Ok(None),
        LpAnswer::Unbounded { .. } => Err(OracleFail::Certificate(
            "zero objective reported unbounded".into(),
        )),
        LpAnswer::Optimal { x, .. } => match first_fractional(lp, &x) {
            None => Ok(Some(x)),
            Some(j) => {
                let fl = x[j].floor();
                let mut down = lp.clone();
                down.vars[j].hi = Some(match &lp.vars[j].hi {
                    Some(h) => qmin(h, &fl),
                    None => fl.clone(),
                });
                if let Some(p) = bb_feasible(&down, nodes, limit)? {
                    return Ok(Some(p));
                }
                let mut up = lp.clone();
                let cl = &fl + one();
                up.vars[j].lo = Some(match &lp.vars[j].lo {
                    Some(l) => qmax(l, &cl),
                    None => cl,
                });
                bb_feasible(&up, nodes, limit)
            }
        },
    }
}

fn bb_opt(
    lp: &Lp,
    best: &mut Option<(Vec<Q>, Q)>,
    nodes: &mut usize,
    limit: usize,
) -> Result<(), OracleFail> {
    *nodes += 1;
    if *nodes > limit {
        return Err(OracleFail::NodeLimit);
    }
    let mut node = lp.clone();
    if !tighten_int_bounds(&mut node) {
        return Ok(());
    }
    match solve_lp(&node)? {
        LpAnswer::Infeasible => Ok(()),
        LpAnswer::Unbounded { .. } => Err(OracleFail::Certificate(
            "node relaxation unbounded under a bounded root".into(),
        )),
        LpAnswer::Optimal { x, value } => {
            if let Some((_, bv)) = best {
                let no_better = if lp.maximize {
                    value <= *bv
                } else {
                    value >= *bv
                };
                if no_better {
                    return Ok(());
                }
            }
            match first_fractional(lp, &x) {
                None => {
                    *best = Some((x, value));
                    Ok(())
                }
                Some(j) => {
                    let fl = x[j].floor();
                    let mut down = node.clone();
                    down.vars[j].hi = Some(match &node.vars[j].hi {
                        Some(h) => qmin(h, &fl),
                        None => fl.clone(),
                    });
                    let mut up = node.clone();
                    let cl = &fl + one();
                    up.vars[j].lo = Some(match &node.vars[j].lo {
                        Some(l) => qmax(l, &cl),
                        None => cl,
                    });
                    bb_opt(&down, best, nodes, limit)?;
                    bb_opt(&up, best, nodes, limit)
                }
            }
        }
    }
}

/// Exact MILP answer. Integer variables must have finite bounds for termination
/// (rooc's Boolean / IntegerRange always do).
pub fn solve_milp(lp: &Lp, node_limit: usize) -> Result<(LpAnswer, MilpStats), OracleFail> {
    let mut nodes = 0usize;
    if !lp.vars.iter().any(|v| v.int) {
        let a = solve_lp(lp)?;
        return Ok((a, MilpStats { nodes: 1 }));
    }
    let Some(point) = bb_feasible(lp, &mut nodes, node_limit)? else {
        return Ok((LpAnswer::Infeasible, MilpStats { nodes }));
    };
    if lp.c.iter().all(|c| c.is_zero()) {
        let value = lp.objective_at(&point);
        return Ok((LpAnswer::Optimal { x: point, value }, MilpStats { nodes }));
    }
    let mut root = lp.clone();
    tighten_int_bounds(&mut root);
    match solve_lp(&root)? {
        LpAnswer::Unbounded { ray, .. } => {
            // rational data: an unbounded relaxation with an integer-feasible point is an
            // unbounded MILP (Meyer). The base point returned is the integer-feasible one.
            Ok((LpAnswer::Unbounded { x: point, ray }, MilpStats { nodes }))
        }
        LpAnswer::Infeasible => Err(OracleFail::Certificate(
            "root infeasible although an integer point exists".into(),
        )),
        LpAnswer::Optimal { .. } => {
            let v = lp.objective_at(&point);
            let mut best = Some((point, v));
            bb_opt(lp, &mut best, &mut nodes, node_limit)?;
            let (x, value) = best.unwrap();
            if !lp.is_feasible(&x, true) {
                return Err(OracleFail::Certificate("incumbent infeasible".into()));
            }
            Ok((LpAnswer::Optimal { x, value }, MilpStats { nodes }))
        }
    }
}

/// The same model with every row and every continuous bound relaxed by eps*max(1,|value|);
/// integrality is kept. Used to decide whether a disagreement is only a rounding artefact.
pub fn relax(lp: &Lp, eps: &Q) -> Lp {
    let mut out = lp.clone();
    out.rows.clear();
    for r in &lp.rows {
        let slack = eps * qmax(&one(), &r.b.abs());
        match r.rel {
            Rel::Le => out.rows.push(LpRow { a: r.a.clone(), rel: Rel::Le, b: &r.b + &slack }),
            Rel::Ge => out.rows.push(LpRow { a: r.a.clone(), rel: Rel::Ge, b: &r.b - &slack }),
            Rel::Eq => {
                out.rows.push(LpRow { a: r.a.clone(), rel: Rel::Le, b: &r.b + &slack });
                out.rows.push(LpRow { a: r.a.clone(), rel: Rel::Ge, b: &r.b - &slack });
            }
        }
    }
    for v in out.vars.iter_mut() {
        if v.int {
            continue;
        }
        if let Some(lo) = &v.lo {
            v.lo = Some(lo - eps * qmax(&one(), &lo.abs()));
        }
        if let Some(hi) = &v.hi {
            v.hi = Some(hi + eps * qmax(&one(), &hi.abs()));
        }
    }
    out
}
