//! Harness-side model AST with its own exact evaluator (R-eval), independent of rooc's
//! expression type. Conversions to rooc's builder `Expr`, to rooc's `Exp`, and to text.
use crate::rat::*;
use num_traits::{Signed, Zero};
use rooc::model_transformer::Exp;
use rooc::{BinOp, Expr, UnOp};
use serde_json::{Value, json};

#[derive(Debug, Clone, PartialEq)]
pub enum E {
    Num(f64),
    Var(usize),
    Abs(Box<E>),
    Min(Vec<E>),
    Max(Vec<E>),
    And(Vec<E>),
    Or(Vec<E>),
    Not(Box<E>),
    Xor(Box<E>, Box<E>),
    Implies(Box<E>, Box<E>),
    Iff(Box<E>, Box<E>),
    Add(Box<E>, Box<E>),
    Sub(Box<E>, Box<E>),
    Mul(Box<E>, Box<E>),
    Div(Box<E>, Box<E>),
    Neg(Box<E>),
}

#[derive(Debug, Clone, Copy, PartialEq, Eq)]
pub enum Undef {
    DivZero,
    NonFinite,
    EmptyExtreme,
    UnknownVar,
}

pub fn b(e: E) -> Box<E> {
    Box::new(e)
}

fn truthy(v: &Q) -> bool {
    !v.is_zero()
}

fn qbool(v: bool) -> Q {
    if v { one() } else { zero() }
}

impl E {
    /// true when the expression contains at least one variable
    pub fn mentions_variable(&self) -> bool {
        let mut f = false;
        self.visit(&mut |x| {
            if matches!(x, E::Var(_)) {
                f = true;
            }
        });
        f
    }
    pub fn add(a: E, c: E) -> E {
        E::Add(b(a), b(c))
    }
    pub fn sub(a: E, c: E) -> E {
        E::Sub(b(a), b(c))
    }
    pub fn mul(a: E, c: E) -> E {
        E::Mul(b(a), b(c))
    }
    pub fn div(a: E, c: E) -> E {
        E::Div(b(a), b(c))
    }

    /// R-eval: exact value under "non-zero is true, logic results are 0/1".
    pub fn eval(&self, env: &[Q]) -> Result<Q, Undef> {
        Ok(match self {
            E::Num(f) => q(*f).ok_or(Undef::NonFinite)?,
            E::Var(i) => env.get(*i).cloned().ok_or(Undef::UnknownVar)?,
            E::Abs(e) => e.eval(env)?.abs(),
            E::Min(es) => {
                let mut it = es.iter();
                let mut best = it.next().ok_or(Undef::EmptyExtreme)?.eval(env)?;
                for e in it {
                    let v = e.eval(env)?;
                    if v < best {
                        best = v;
                    }
                }
                best
            }
            E::Max(es) => {
                let mut it = es.iter();
                let mut best = it.next().ok_or(Undef::EmptyExtreme)?.eval(env)?;
                for e in it {
                    let v = e.eval(env)?;
                    if v > best {
                        best = v;
                    }
                }
                best
            }
            E::And(es) => {
                let mut all = true;
                for e in es {
                    if !truthy(&e.eval(env)?) {
                        all = false;
                    }
                }
                qbool(all)
            }
            E::Or(es) => {
                let mut any = false;
                for e in es {
                    if truthy(&e.eval(env)?) {
                        any = true;
                    }
                }
                qbool(any)
            }
            E::Not(e) => qbool(!truthy(&e.eval(env)?)),
            E::Xor(a, c) => qbool(truthy(&a.eval(env)?) != truthy(&c.eval(env)?)),
            E::Implies(a, c) => {
                let av = truthy(&a.eval(env)?);
                let cv = truthy(&c.eval(env)?);
                qbool(!av || cv)
            }
            E::Iff(a, c) => qbool(truthy(&a.eval(env)?) == truthy(&c.eval(env)?)),
            E::Add(a, c) => a.eval(env)? + c.eval(env)?,
            E::Sub(a, c) => a.eval(env)? - c.eval(env)?,
            E::Mul(a, c) => a.eval(env)? * c.eval(env)?,
            E::Div(a, c) => {
                let d = c.eval(env)?;
                let n = a.eval(env)?;
                if d.is_zero() {
                    return Err(Undef::DivZero);
                }
                n / d
            }
            E::Neg(e) => -e.eval(env)?,
        })
    }

    pub fn to_exp(&self, names: &[String]) -> Exp {
        let bx = |e: &E| Box::new(e.to_exp(names));
        let vx = |es: &Vec<E>| es.iter().map(|e| e.to_exp(names)).collect::<Vec<_>>();
        match self {
            E::Num(f) => Exp::Number(*f),
            E::Var(i) => Exp::Variable(names[*i].clone()),
            E::Abs(e) => Exp::Abs(bx(e)),
            E::Min(es) => Exp::Min(vx(es)),
            E::Max(es) => Exp::Max(vx(es)),
            E::And(es) => Exp::And(vx(es)),
            E::Or(es) => Exp::Or(vx(es)),
            E::Not(e) => Exp::Not(bx(e)),
            E::Xor(a, c) => Exp::Xor(bx(a), bx(c)),
            E::Implies(a, c) => Exp::Implies(bx(a), bx(c)),
            E::Iff(a, c) => Exp::Iff(bx(a), bx(c)),
            E::Add(a, c) => Exp::BinOp(BinOp::Add, bx(a), bx(c)),
            E::Sub(a, c) => Exp::BinOp(BinOp::Sub, bx(a), bx(c)),
            E::Mul(a, c) => Exp::BinOp(BinOp::Mul, bx(a), bx(c)),
            E::Div(a, c) => Exp::BinOp(BinOp::Div, bx(a), bx(c)),
            E::Neg(e) => Exp::UnOp(UnOp::Neg, bx(e)),
        }
    }

    /// Builder expression built through the public operator overloads / helper functions.
    pub fn to_expr(&self) -> Expr {
        use rooc::builder::{abs, all, any, max, min};
        match self {
            E::Num(f) => Expr::from(*f),
            E::Var(i) => Expr::from(rooc::Var { index: *i }),
            E::Abs(e) => abs(e.to_expr()),
            E::Min(es) => min(es.iter().map(|e| e.to_expr()).collect::<Vec<_>>()),
            E::Max(es) => max(es.iter().map(|e| e.to_expr()).collect::<Vec<_>>()),
            E::And(es) => {
                if es.len() == 2 {
                    es[0].to_expr() & es[1].to_expr()
                } else {
                    all(es.iter().map(|e| e.to_expr()).collect::<Vec<_>>())
                }
            }
            E::Or(es) => {
                if es.len() == 2 {
                    es[0].to_expr() | es[1].to_expr()
                } else {
                    any(es.iter().map(|e| e.to_expr()).collect::<Vec<_>>())
                }
            }
            E::Not(e) => !e.to_expr(),
            E::Xor(a, c) => a.to_expr() ^ c.to_expr(),
            E::Implies(a, c) => a.to_expr().implies(c.to_expr()),
            E::Iff(a, c) => a.to_expr().iff(c.to_expr()),
            E::Add(a, c) => a.to_expr() + c.to_expr(),
            E::Sub(a, c) => a.to_expr() - c.to_expr(),
            E::Mul(a, c) => a.to_expr() * c.to_expr(),
            E::Div(a, c) => a.to_expr() / c.to_expr(),
            E::Neg(e) => -e.to_expr(),
        }
    }

    pub fn children(&self) -> Vec<&E> {
        match self {
            E::Num(_) | E::Var(_) => vec![],
            E::Abs(e) | E::Not(e) | E::Neg(e) => vec![e],
            E::Min(es) | E::Max(es) | E::And(es) | E::Or(es) => es.iter().collect(),
            E::Xor(a, c)
            | E::Implies(a, c)
            | E::Iff(a, c)
            | E::Add(a, c)
            | E::Sub(a, c)
            | E::Mul(a, c)
            | E::Div(a, c) => vec![a, c],
        }
    }

    pub fn size(&self) -> usize {
        1 + self.children().iter().map(|c| c.size()).sum::<usize>()
    }

    pub fn visit<'a>(&'a self, f: &mut dyn FnMut(&'a E)) {
        f(self);
        for c in self.children() {
            c.visit(f);
        }
    }

    pub fn vars_used(&self, out: &mut Vec<usize>) {
        self.visit(&mut |e| {
            if let E::Var(i) = e {
                if !out.contains(i) {
                    out.push(*i);
                }
            }
        });
    }

    pub fn has_piecewise(&self) -> bool {
        let mut f = false;
        self.visit(&mut |e| {
            if matches!(e, E::Abs(_) | E::Min(_) | E::Max(_)) {
                f = true;
            }
        });
        f
    }

    pub fn has_logic(&self) -> bool {
        let mut f = false;
        self.visit(&mut |e| {
            if matches!(
                e,
                E::And(_) | E::Or(_) | E::Not(_) | E::Xor(..) | E::Implies(..) | E::Iff(..)
            ) {
                f = true;
            }
        });
        f
    }

    pub fn is_logic_root(&self) -> bool {
        matches!(
            self,
            E::And(_) | E::Or(_) | E::Not(_) | E::Xor(..) | E::Implies(..) | E::Iff(..)
        )
    }

    /// Compact s-expression used in replays and evidence samples.
    pub fn show(&self, names: &[String]) -> String {
        let l = |es: &Vec<E>| es.iter().map(|e| e.show(names)).collect::<Vec<_>>().join(", ");
        match self {
            E::Num(f) => format!("{f}"),
            E::Var(i) => names.get(*i).cloned().unwrap_or(format!("v{i}")),
            E::Abs(e) => format!("abs{{{}}}", e.show(names)),
            E::Min(es) => format!("min{{{}}}", l(es)),
            E::Max(es) => format!("max{{{}}}", l(es)),
            E::And(es) => format!("all{{{}}}", l(es)),
            E::Or(es) => format!("any{{{}}}", l(es)),
            E::Not(e) => format!("not({})", e.show(names)),
            E::Xor(a, c) => format!("({} xor {})", a.show(names), c.show(names)),
            E::Implies(a, c) => format!("({} implies {})", a.show(names), c.show(names)),
            E::Iff(a, c) => format!("({} iff {})", a.show(names), c.show(names)),
            E::Add(a, c) => format!("({} + {})", a.show(names), c.show(names)),
            E::Sub(a, c) => format!("({} - {})", a.show(names), c.show(names)),
            E::Mul(a, c) => format!("({} * {})", a.show(names), c.show(names)),
            E::Div(a, c) => format!("({} / {})", a.show(names), c.show(names)),
            E::Neg(e) => format!("-({})", e.show(names)),
        }
    }
}

#[derive(Debug, Clone, Copy, PartialEq)]
pub enum VT {
    Bool,
    Int(i32, i32),
    Real(f64, f64),
    NonNeg(f64, f64),
}

impl VT {
    pub fn to_rooc(&self) -> rooc::VariableType {
        match *self {
            VT::Bool => rooc::VariableType::Boolean,
            VT::Int(a, c) => rooc::VariableType::IntegerRange(a, c),
            VT::Real(a, c) => rooc::VariableType::Real(a, c),
            VT::NonNeg(a, c) => rooc::VariableType::NonNegativeReal(a, c),
        }
    }
    pub fn bounds(&self) -> (f64, f64) {
        match *self {
            VT::Bool => (0.0, 1.0),
            VT::Int(a, c) => (a as f64, c as f64),
            VT::Real(a, c) => (a, c),
            VT::NonNeg(a, c) => (a.max(0.0), c),
        }
    }
    pub fn is_discrete(&self) -> bool {
        matches!(self, VT::Bool | VT::Int(..))
    }
    pub fn contains(&self, v: &Q) -> bool {
        let (lo, hi) = self.bounds();
        if let Some(lo) = q(lo) {
            if *v < lo {
                return false;
            }
        }
        if let Some(hi) = q(hi) {
            if *v > hi {
                return false;
            }
        }
        if self.is_discrete() && !v.is_integer() {
            return false;
        }
        true
    }
    pub fn show(&self) -> String {
        let inf = |f: f64| {
            if f == f64::INFINITY {
                "Infinity".to_string()
            } else if f == f64::NEG_INFINITY {
                "MinusInfinity".to_string()
            } else {
                format!("{f}")
            }
        };
        match *self {
            VT::Bool => "Boolean".into(),
            VT::Int(a, c) => format!("IntegerRange({a}, {c})"),
            VT::Real(a, c) => {
                if a == f64::NEG_INFINITY && c == f64::INFINITY {
                    "Real".into()
                } else {
                    format!("Real({}, {})", inf(a), inf(c))
                }
            }
            VT::NonNeg(a, c) => {
                if a == 0.0 && c == f64::INFINITY {
                    "NonNegativeReal".into()
                } else {
                    format!("NonNegativeReal({}, {})", inf(a), inf(c))
                }
            }
        }
    }
}

#[derive(Debug, Clone, Copy, PartialEq, Eq)]
pub enum Cmp {
    Le,
    Ge,
    Eq,
}

impl Cmp {
    pub fn to_rooc(self) -> rooc::Comparison {
        match self {
            Cmp::Le => rooc::Comparison::LessOrEqual,
            Cmp::Ge => rooc::Comparison::GreaterOrEqual,
            Cmp::Eq => rooc::Comparison::Equal,
        }
    }
    pub fn sym(self) -> &'static str {
        match self {
            Cmp::Le => "<=",
            Cmp::Ge => ">=",
            Cmp::Eq => "=",
        }
    }
    pub fn holds(self, lhs: &Q, rhs: &Q, eps: &Q) -> bool {
        match self {
            Cmp::Le => *lhs <= rhs + eps,
            Cmp::Ge => lhs + eps >= *rhs,
            Cmp::Eq => (lhs - rhs).abs() <= *eps,
        }
    }
}

#[derive(Debug, Clone)]
pub enum CKind {
    Cmp(E, Cmp, E),
    Assert(E),
}

#[derive(Debug, Clone)]
pub struct Con {
    pub name: Option<String>,
    pub kind: CKind,
}

#[derive(Debug, Clone, Copy, PartialEq, Eq)]
pub enum Sense {
    Min,
    Max,
    Satisfy,
}

#[derive(Debug, Clone)]
pub struct M {
    pub names: Vec<String>,
    pub types: Vec<VT>,
    pub cons: Vec<Con>,
    pub sense: Sense,
    pub obj: E,
}

#[derive(Debug, Clone, Copy, PartialEq, Eq)]
pub enum Feas {
    Yes,
    No,
    Undefined,
}

impl M {
    pub fn n(&self) -> usize {
        self.names.len()
    }

    /// Source feasibility of a full assignment; `eps` relaxes comparisons and bounds.
    pub fn feasible(&self, p: &[Q], eps: &Q) -> Feas {
        for (t, v) in self.types.iter().zip(p) {
            let (lo, hi) = t.bounds();
            if let Some(lo) = q(lo) {
                if v + eps < lo {
                    return Feas::No;
                }
            }
            if let Some(hi) = q(hi) {
                if *v > hi + eps {
                    return Feas::No;
                }
            }
            if t.is_discrete() && !v.is_integer() {
                return Feas::No;
            }
        }
        let mut undefined = false;
        for c in &self.cons {
            match &c.kind {
                CKind::Cmp(l, cmp, r) => match (l.eval(p), r.eval(p)) {
                    (Ok(lv), Ok(rv)) => {
                        let scale = qmax(&one(), &qmax(&lv.abs(), &rv.abs()));
                        if !cmp.holds(&lv, &rv, &(eps * scale)) {
                            return Feas::No;
                        }
                    }
                    _ => undefined = true,
                },
                CKind::Assert(e) => match e.eval(p) {
                    Ok(v) => {
                        if v.is_zero() {
                            return Feas::No;
                        }
                    }
                    Err(_) => undefined = true,
                },
            }
        }
        if undefined { Feas::Undefined } else { Feas::Yes }
    }

    pub fn all_exprs(&self) -> Vec<&E> {
        let mut v = vec![&self.obj];
        for c in &self.cons {
            match &c.kind {
                CKind::Cmp(l, _, r) => {
                    v.push(l);
                    v.push(r);
                }
                CKind::Assert(e) => v.push(e),
            }
        }
        v
    }

    pub fn vars_used(&self) -> Vec<usize> {
        let mut out = vec![];
        for e in self.all_exprs() {
            e.vars_used(&mut out);
        }
        out.sort();
        out
    }

    pub fn has_piecewise(&self) -> bool {
        self.all_exprs().iter().any(|e| e.has_piecewise())
    }
    pub fn has_logic(&self) -> bool {
        self.all_exprs().iter().any(|e| e.has_logic())
            || self.cons.iter().any(|c| matches!(c.kind, CKind::Assert(_)))
    }

    /// Builds the rooc `Model` through the public fluent builder.
    pub fn to_builder(&self) -> (rooc::ModelBuilder, Vec<rooc::Var>) {
        let mut mb = rooc::ModelBuilder::new();
        let mut handles = vec![];
        for (n, t) in self.names.iter().zip(&self.types) {
            handles.push(mb.add_var(n.clone(), t.to_rooc()));
        }
        for c in &self.cons {
            let name = c.name.clone().unwrap_or_default();
            let bc = match &c.kind {
                CKind::Cmp(l, cmp, r) => {
                    rooc::BuilderConstraint::new(l.to_expr(), cmp.to_rooc(), r.to_expr(), name)
                }
                CKind::Assert(e) => rooc::BuilderConstraint::new_logic_assertion(e.to_expr(), name),
            };
            mb = mb.with(bc);
        }
        mb = match self.sense {
            Sense::Min => mb.minimize(self.obj.to_expr()),
            Sense::Max => mb.maximize(self.obj.to_expr()),
            Sense::Satisfy => mb.satisfy(),
        };
        (mb, handles)
    }

    pub fn to_model(&self) -> rooc::model_transformer::Model {
        self.to_builder().0.into_model()
    }

    pub fn show(&self) -> Value {
        let cons: Vec<String> = self
            .cons
            .iter()
            .map(|c| {
                let n = c.name.as_ref().map(|n| format!("{n}: ")).unwrap_or_default();
                match &c.kind {
                    CKind::Cmp(l, cmp, r) => {
                        format!("{n}{} {} {}", l.show(&self.names), cmp.sym(), r.show(&self.names))
                    }
                    CKind::Assert(e) => format!("{n}{}", e.show(&self.names)),
                }
            })
            .collect();
        let decl: Vec<String> = self
            .names
            .iter()
            .zip(&self.types)
            .map(|(n, t)| format!("{n} as {}", t.show()))
            .collect();
        json!({
            "objective": format!("{:?} {}", self.sense, self.obj.show(&self.names)),
            "constraints": cons,
            "define": decl,
        })
    }
}
