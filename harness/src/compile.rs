//! Thin wrappers around the real compiler stages, each guarded by catch_unwind.
use crate::ast::M;
use rooc::model_transformer::Model;
use rooc::{LinearModel, LinearizationError, Linearizer};
use std::panic::{AssertUnwindSafe, catch_unwind};

pub enum Compiled {
    Ok(LinearModel),
    Rejected(LinearizationError),
    Panicked(String),
}

pub fn panic_msg(e: Box<dyn std::any::Any + Send>) -> String {
    if let Some(s) = e.downcast_ref::<&str>() {
        s.to_string()
    } else if let Some(s) = e.downcast_ref::<String>() {
        s.clone()
    } else {
        "panic".to_string()
    }
}

pub fn linearize_model(model: Model) -> Compiled {
    match catch_unwind(AssertUnwindSafe(|| Linearizer::linearize(model))) {
        Ok(Ok(lm)) => Compiled::Ok(lm),
        Ok(Err(e)) => Compiled::Rejected(e),
        Err(p) => Compiled::Panicked(panic_msg(p)),
    }
}

/// Source model -> linear model through the public fluent builder.
pub fn compile_m(m: &M) -> Compiled {
    match catch_unwind(AssertUnwindSafe(|| m.to_builder().0.linearize())) {
        Ok(Ok(lm)) => Compiled::Ok(lm),
        Ok(Err(e)) => Compiled::Rejected(e),
        Err(p) => Compiled::Panicked(panic_msg(p)),
    }
}

pub fn lin_err_kind(e: &LinearizationError) -> &'static str {
    match e {
        LinearizationError::NonLinearExpression(_) => "NonLinearExpression",
        LinearizationError::DivisionByZero(_) => "DivisionByZero",
        LinearizationError::EmptyAggregation(_) => "EmptyAggregation",
        LinearizationError::VarAlreadyDeclared(_) => "VarAlreadyDeclared",
        LinearizationError::UnimplementedExpression(_) => "UnimplementedExpression",
        LinearizationError::NonBinaryLogicOperand(_) => "NonBinaryLogicOperand",
        LinearizationError::MissingFiniteBounds { .. } => "MissingFiniteBounds",
    }
}

/// Which lowering families fired, inferred from auxiliary names and row shapes.
pub fn lowering_tags(m: Option<&M>, lm: &LinearModel) -> Vec<&'static str> {
    let vars = lm.variables();
    let has = |p: &str| vars.iter().any(|v| v.starts_with(p));
    let mut tags = vec![];
    let abs_aux = vars.iter().any(|v| v.starts_with("$abs_") && !v.ends_with("_positive"));
    let abs_exact = vars.iter().any(|v| v.starts_with("$abs_") && v.ends_with("_positive"));
    if abs_exact {
        tags.push("abs:exact-bigM");
    }
    if abs_aux && !abs_exact {
        tags.push("abs:one-sided");
    }
    let ext_sel = vars.iter().any(|v| (v.starts_with("$min_") || v.starts_with("$max_")) && v.contains("_select_"));
    let ext_aux = vars.iter().any(|v| (v.starts_with("$min_") || v.starts_with("$max_")) && !v.contains("_select_"));
    if ext_sel {
        tags.push("extreme:selector-bigM");
    }
    if ext_aux && !ext_sel {
        tags.push("extreme:one-sided");
    }
    if has("$and_") || has("$or_") || has("$xor_") || has("$implies_") || has("$iff_") {
        tags.push("logic:reified");
    }
    if has("$logic_witness_") {
        tags.push("logic:witness");
    }
    if lm
        .constraints()
        .iter()
        .any(|r| r.coefficients().iter().all(|c| *c == 0.0) && r.rhs() != 0.0)
    {
        tags.push("row:constant-contradiction");
    }
    if let Some(m) = m {
        let mut n_abs = 0;
        let mut n_ext = 0;
        for e in m.all_exprs() {
            e.visit(&mut |x| match x {
                crate::ast::E::Abs(_) => n_abs += 1,
                crate::ast::E::Min(_) | crate::ast::E::Max(_) => n_ext += 1,
                _ => {}
            });
        }
        let abs_aux_count = vars.iter().filter(|v| v.starts_with("$abs_") && !v.ends_with("_positive")).count();
        let ext_aux_count = vars
            .iter()
            .filter(|v| (v.starts_with("$min_") || v.starts_with("$max_")) && !v.contains("_select_"))
            .count();
        if n_abs > abs_aux_count {
            tags.push("abs:sign-known-or-folded");
        }
        if n_ext > ext_aux_count {
            tags.push("extreme:pruned-or-folded");
        }
        if m.has_logic() && !tags.iter().any(|t| t.starts_with("logic:")) {
            tags.push("logic:affine-assertion");
        }
    }
    tags
}
