//! Exact arithmetic helpers. Every finite f64 is a dyadic rational and converts exactly.
use num_bigint::BigInt;
use num_rational::BigRational;
use num_traits::{One, Signed, ToPrimitive, Zero};

pub type Q = BigRational;

/// Exact value of a finite f64; `None` for NaN / infinities.
pub fn q(f: f64) -> Option<Q> {
    if f.is_finite() {
        BigRational::from_float(f)
    } else {
        None
    }
}

pub fn qi(i: i64) -> Q {
    Q::from_integer(BigInt::from(i))
}

pub fn qf(n: i64, d: i64) -> Q {
    Q::new(BigInt::from(n), BigInt::from(d))
}

pub fn zero() -> Q {
    Q::zero()
}

pub fn one() -> Q {
    Q::one()
}

pub fn to_f64(v: &Q) -> f64 {
    v.to_f64().unwrap_or_else(|| {
        // ratio of big integers: fall back to dividing the float images
        let n = v.numer().to_f64().unwrap_or(f64::NAN);
        let d = v.denom().to_f64().unwrap_or(f64::NAN);
        n / d
    })
}

pub fn is_int(v: &Q) -> bool {
    v.is_integer()
}

pub fn qabs(v: &Q) -> Q {
    v.abs()
}

pub fn qmax(a: &Q, b: &Q) -> Q {
    if a >= b { a.clone() } else { b.clone() }
}

pub fn qmin(a: &Q, b: &Q) -> Q {
    if a <= b { a.clone() } else { b.clone() }
}

/// Short printable form: integers as integers, others as n/d (or a float if huge).
pub fn show(v: &Q) -> String {
    if v.is_integer() {
        v.numer().to_string()
    } else if v.denom().bits() <= 20 {
        format!("{}/{}", v.numer(), v.denom())
    } else {
        format!("{}", to_f64(v))
    }
}

pub fn show_vec(v: &[Q]) -> String {
    format!("[{}]", v.iter().map(show).collect::<Vec<_>>().join(", "))
}

/// 10^-k as an exact rational.
pub fn pow10_neg(k: u32) -> Q {
    Q::new(BigInt::one(), BigInt::from(10u32).pow(k))
}
