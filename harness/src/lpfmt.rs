//! R-lpfmt: an independent reader for the CPLEX LP text format (the subset any LP reader
//! understands): sense, objective with constant, named rows, Bounds, Binary, General, End.
use std::collections::BTreeMap;

#[derive(Debug, Clone, PartialEq)]
pub enum Tok {
    Num(f64),
    Id(String),
    Plus,
    Minus,
    Colon,
    Le,
    Ge,
    Eq,
}

#[derive(Debug, Clone)]
pub struct LpRowRead {
    pub name: Option<String>,
    pub terms: BTreeMap<String, f64>,
    pub rel: &'static str,
    pub rhs: f64,
}

#[derive(Debug, Clone, Default)]
pub struct LpRead {
    pub maximize: bool,
    pub obj_name: Option<String>,
    pub obj: BTreeMap<String, f64>,
    pub obj_const: f64,
    pub rows: Vec<LpRowRead>,
    pub bounds: BTreeMap<String, (f64, f64)>,
    pub binary: Vec<String>,
    pub general: Vec<String>,
    /// every variable name in order of first appearance
    pub vars: Vec<String>,
}

fn is_id_start(c: char) -> bool {
    c.is_alphabetic() || "!\"#$%&(),;?@_'`{}~".contains(c)
}
fn is_id_char(c: char) -> bool {
    is_id_start(c) || c.is_ascii_digit() || c == '.'
}

pub fn tokenize(line: &str) -> Result<Vec<Tok>, String> {
    let cs: Vec<char> = line.chars().collect();
    let mut i = 0;
    let mut out = vec![];
    while i < cs.len() {
        let c = cs[i];
        if c.is_whitespace() {
            i += 1;
        } else if c == '\\' {
            break; // comment
        } else if c == '+' {
            out.push(Tok::Plus);
            i += 1;
        } else if c == '-' {
            out.push(Tok::Minus);
            i += 1;
        } else if c == ':' {
            out.push(Tok::Colon);
            i += 1;
        } else if c == '<' || c == '>' || c == '=' {
            let mut j = i + 1;
            if j < cs.len() && (cs[j] == '=' || cs[j] == '<' || cs[j] == '>') {
                j += 1;
            }
            let s: String = cs[i..j].iter().collect();
            out.push(match s.as_str() {
                "<=" | "=<" | "<" => Tok::Le,
                ">=" | "=>" | ">" => Tok::Ge,
                "=" | "==" => Tok::Eq,
                other => return Err(format!("bad relation {other}")),
            });
            i = j;
        } else if c.is_ascii_digit() || c == '.' {
            let mut j = i;
            while j < cs.len() && (cs[j].is_ascii_digit() || cs[j] == '.') {
                j += 1;
            }
            if j < cs.len() && (cs[j] == 'e' || cs[j] == 'E') {
                let mut k = j + 1;
                if k < cs.len() && (cs[k] == '+' || cs[k] == '-') {
                    k += 1;
                }
                if k < cs.len() && cs[k].is_ascii_digit() {
                    while k < cs.len() && cs[k].is_ascii_digit() {
                        k += 1;
                    }
                    j = k;
                }
            }
            let s: String = cs[i..j].iter().collect();
            out.push(Tok::Num(s.parse::<f64>().map_err(|_| format!("bad number {s}"))?));
            i = j;
        } else if is_id_start(c) {
            let mut j = i;
            while j < cs.len() && is_id_char(cs[j]) {
                j += 1;
            }
            out.push(Tok::Id(cs[i..j].iter().collect()));
            i = j;
        } else {
            return Err(format!("unexpected character {c:?}"));
        }
    }
    Ok(out)
}

fn is_inf_word(s: &str) -> bool {
    let l = s.to_ascii_lowercase();
    l == "infinity" || l == "inf"
}

/// Parses `[sign] [number] [id]`* into coefficient map + constant. Returns consumed count.
fn parse_linear(
    toks: &[Tok],
    vars: &mut Vec<String>,
) -> Result<(BTreeMap<String, f64>, f64, usize), String> {
    let mut terms = BTreeMap::new();
    let mut constant = 0.0;
    let mut i = 0;
    let mut first = true;
    loop {
        let mut sign = 1.0;
        let mut saw_sign = false;
        while i < toks.len() && matches!(toks[i], Tok::Plus | Tok::Minus) {
            if toks[i] == Tok::Minus {
                sign = -sign;
            }
            saw_sign = true;
            i += 1;
        }
        if i >= toks.len() || matches!(toks[i], Tok::Le | Tok::Ge | Tok::Eq | Tok::Colon) {
            if saw_sign {
                return Err("dangling sign".into());
            }
            break;
        }
        if !first && !saw_sign {
            return Err("missing sign between terms".into());
        }
        first = false;
        let mut coef = None;
        if let Tok::Num(v) = toks[i] {
            coef = Some(v);
            i += 1;
        }
        if i < toks.len() {
            if let Tok::Id(name) = &toks[i] {
                let c = sign * coef.unwrap_or(1.0);
                *terms.entry(name.clone()).or_insert(0.0) += c;
                if !vars.contains(name) {
                    vars.push(name.clone());
                }
                i += 1;
                continue;
            }
        }
        match coef {
            Some(v) => constant += sign * v,
            None => return Err("term without number or variable".into()),
        }
    }
    Ok((terms, constant, i))
}

fn parse_bound_value(toks: &[Tok], i: &mut usize) -> Result<f64, String> {
    let mut sign = 1.0;
    while *i < toks.len() && matches!(toks[*i], Tok::Plus | Tok::Minus) {
        if toks[*i] == Tok::Minus {
            sign = -sign;
        }
        *i += 1;
    }
    match toks.get(*i) {
        Some(Tok::Num(v)) => {
            *i += 1;
            Ok(sign * v)
        }
        Some(Tok::Id(s)) if is_inf_word(s) => {
            *i += 1;
            Ok(sign * f64::INFINITY)
        }
        other => Err(format!("bad bound value {other:?}")),
    }
}

pub fn read_lp(text: &str) -> Result<LpRead, String> {
    #[derive(PartialEq)]
    enum Sec {
        None,
        Obj,
        Rows,
        Bounds,
        Binary,
        General,
        End,
    }
    let mut sec = Sec::None;
    let mut out = LpRead::default();
    // statements may span lines: accumulate tokens per section, rows are split at "name :" or relation+rhs
    let mut obj_toks: Vec<Tok> = vec![];
    let mut row_toks: Vec<Tok> = vec![];
    let mut bound_lines: Vec<Vec<Tok>> = vec![];
    for raw in text.lines() {
        let line = raw.trim();
        if line.is_empty() {
            continue;
        }
        let low = line.to_ascii_lowercase();
        let header = match low.as_str() {
            "minimize" | "minimise" | "min" | "minimum" => Some((Sec::Obj, false)),
            "maximize" | "maximise" | "max" | "maximum" => Some((Sec::Obj, true)),
            "subject to" | "such that" | "st" | "s.t." | "st." => Some((Sec::Rows, false)),
            "bounds" | "bound" => Some((Sec::Bounds, false)),
            "binary" | "binaries" | "bin" => Some((Sec::Binary, false)),
            "general" | "generals" | "gen" | "integer" | "integers" => Some((Sec::General, false)),
            "end" => Some((Sec::End, false)),
            _ => None,
        };
        if let Some((s, mx)) = header {
            if s == Sec::Obj {
                out.maximize = mx;
            }
            sec = s;
            continue;
        }
        let toks = tokenize(line)?;
        match sec {
            Sec::None => return Err(format!("text before the objective sense: {line}")),
            Sec::Obj => obj_toks.extend(toks),
            Sec::Rows => row_toks.extend(toks),
            Sec::Bounds => bound_lines.push(toks),
            Sec::Binary => {
                for t in toks {
                    match t {
                        Tok::Id(s) => out.binary.push(s),
                        other => return Err(format!("bad token in Binary: {other:?}")),
                    }
                }
            }
            Sec::General => {
                for t in toks {
                    match t {
                        Tok::Id(s) => out.general.push(s),
                        other => return Err(format!("bad token in General: {other:?}")),
                    }
                }
            }
            Sec::End => return Err(format!("text after End: {line}")),
        }
    }
    if sec != Sec::End {
        return Err("missing End".into());
    }
    // objective
    {
        let mut t = &obj_toks[..];
        if t.len() >= 2 {
            if let (Tok::Id(n), Tok::Colon) = (&t[0], &t[1]) {
                out.obj_name = Some(n.clone());
                t = &t[2..];
            }
        }
        let (terms, constant, used) = parse_linear(t, &mut out.vars)?;
        if used != t.len() {
            return Err("trailing tokens in the objective".into());
        }
        out.obj = terms;
        out.obj_const = constant;
    }
    // rows
    {
        let mut t = &row_toks[..];
        while !t.is_empty() {
            let mut name = None;
            if t.len() >= 2 {
                if let (Tok::Id(n), Tok::Colon) = (&t[0], &t[1]) {
                    name = Some(n.clone());
                    t = &t[2..];
                }
            }
            let (terms, lconst, used) = parse_linear(t, &mut out.vars)?;
            t = &t[used..];
            let rel = match t.first() {
                Some(Tok::Le) => "<=",
                Some(Tok::Ge) => ">=",
                Some(Tok::Eq) => "=",
                other => return Err(format!("expected a relation, found {other:?}")),
            };
            t = &t[1..];
            let mut i = 0;
            let rhs = parse_bound_value(t, &mut i)?;
            t = &t[i..];
            out.rows.push(LpRowRead {
                name,
                terms,
                rel,
                rhs: rhs - lconst,
            });
        }
    }
    // bounds
    for toks in bound_lines {
        // forms: lo <= x <= hi | x <= hi | x >= lo | x = v | lo <= x | x free
        if toks.len() == 2 {
            if let (Tok::Id(x), Tok::Id(f)) = (&toks[0], &toks[1]) {
                if f.eq_ignore_ascii_case("free") {
                    out.bounds
                        .insert(x.clone(), (f64::NEG_INFINITY, f64::INFINITY));
                    if !out.vars.contains(x) {
                        out.vars.push(x.clone());
                    }
                    continue;
                }
            }
        }
        let mut i = 0;
        let starts_with_value = match toks.first() {
            Some(Tok::Id(s)) => is_inf_word(s),
            Some(_) => true,
            None => false,
        };
        let mut lo = None;
        let mut hi = None;
        let mut fixed = None;
        if starts_with_value {
            let v = parse_bound_value(&toks, &mut i)?;
            match toks.get(i) {
                Some(Tok::Le) => lo = Some(v),
                Some(Tok::Ge) => hi = Some(v),
                other => return Err(format!("bad bounds line near {other:?}")),
            }
            i += 1;
        }
        let x = match toks.get(i) {
            Some(Tok::Id(x)) => x.clone(),
            other => return Err(format!("expected a variable in Bounds, found {other:?}")),
        };
        i += 1;
        if i < toks.len() {
            let rel = toks[i].clone();
            i += 1;
            let v = parse_bound_value(&toks, &mut i)?;
            match rel {
                Tok::Le => hi = Some(v),
                Tok::Ge => lo = Some(v),
                Tok::Eq => fixed = Some(v),
                other => return Err(format!("bad relation in Bounds {other:?}")),
            }
        }
        if i != toks.len() {
            return Err("trailing tokens in a Bounds line".into());
        }
        if !out.vars.contains(&x) {
            out.vars.push(x.clone());
        }
        let cur = out.bounds.get(&x).copied().unwrap_or((0.0, f64::INFINITY));
        let mut nb = cur;
        if let Some(v) = fixed {
            nb = (v, v);
        }
        if let Some(v) = lo {
            nb.0 = v;
        }
        if let Some(v) = hi {
            nb.1 = v;
            // LP-format rule: a negative upper bound with the default lower bound of 0 is an
            // error in most readers; rooc always writes both sides, so no special handling.
        }
        out.bounds.insert(x, nb);
    }
    for x in out.binary.iter().chain(out.general.iter()) {
        if !out.vars.contains(x) {
            out.vars.push(x.clone());
        }
    }
    Ok(out)
}

impl LpRead {
    /// (lo, hi, integer) of a variable as an LP reader understands it.
    pub fn domain_of(&self, x: &str) -> (f64, f64, bool) {
        if self.binary.iter().any(|b| b == x) {
            // binary implies [0,1] unless tighter bounds were also given
            let (lo, hi) = self.bounds.get(x).copied().unwrap_or((0.0, 1.0));
            return (lo.max(0.0), hi.min(1.0), true);
        }
        let (lo, hi) = self.bounds.get(x).copied().unwrap_or((0.0, f64::INFINITY));
        (lo, hi, self.general.iter().any(|g| g == x))
    }
}
