//! C04 (returned solutions are feasible and self-consistent) and
//! C05 (verdicts and optimal values are correct), over every built-in solver entry point.
use crate::compile::*;
use crate::gen_lp::*;
use crate::gen_model::*;
use crate::lin::*;
use crate::lp::*;
use crate::rat::*;
use crate::runner::*;
use crate::solve::*;
use num_traits::Signed;
use rand::Rng;
use rand_chacha::ChaCha8Rng;
use serde_json::{Value, json};

pub struct C04;
pub struct C05;

/// Models of one unit: mostly G-lp, some compiled by the real Linearizer from G-model.
pub fn unit_models(rng: &mut ChaCha8Rng, count: usize, moderate: bool) -> Vec<(LmSpec, &'static str)> {
    let mut v = vec![];
    while v.len() < count {
        if rng.gen_range(0..80) == 0 {
            // the classic cycling examples, plain and behind a strictly improving first pivot: the verdict counts here,
            // the pivots are C14's concern
            let classics = crate::props::c14::classic_models();
            let (lm, _) = &classics[rng.gen_range(0..classics.len())];
            v.push((LmSpec::from_rooc(lm), "cycling-classic"));
        } else if rng.gen_range(0..4) == 0 {
            let stratum = STRATA[rng.gen_range(0..STRATA.len())];
            let m = gen_model(rng, stratum);
            if let Compiled::Ok(lm) = compile_m(&m) {
                if lm.variables().len() <= 14 && lm.constraints().len() <= 24 {
                    v.push((LmSpec::from_rooc(&lm), "from-linearizer"));
                }
            }
        } else if rng.gen_range(0..8) == 0 {
            // a G-lp model sent through the compiler first (bound tightening, row normalisation)
            let cont = rng.gen_bool(0.7);
            let spec = gen_lm(rng, &LpGenOpts { continuous_only: cont, moderate_coeffs: moderate, max_vars: 5, max_rows: 6, ..Default::default() });
            if spec.sense != "satisfy" || true {
                let (mb, _) = crate::props::c20::spec_to_m(&spec).to_builder();
                if let Ok(Ok(lm)) = std::panic::catch_unwind(std::panic::AssertUnwindSafe(|| mb.linearize())) {
                    v.push((LmSpec::from_rooc(&lm), "g-lp-through-linearizer"));
                }
            }
        } else {
            let cont = rng.gen_bool(0.5);
            let spec = gen_lm(
                rng,
                &LpGenOpts {
                    continuous_only: cont,
                    moderate_coeffs: moderate,
                    max_vars: 6,
                    max_rows: 6,
                    ..Default::default()
                },
            );
            let mut spec = spec;
            let mut origin = if cont { "g-lp-continuous" } else { "g-lp-mixed" };
            if moderate && cont && rng.gen_range(0..12) == 0 {
                // one coefficient of a few millionths on a boxed variable: the term still matters
                // (5e-6 * 10 = 5e-5, 5e-6 * 5000 = 2.5e-2) and a bridge that treats it as zero returns an infeasible point
                let boxed: Vec<usize> = spec.vars.iter().enumerate().filter(|(_, (_, t))| matches!(t, VSpec::Real(Some(_), Some(_)) | VSpec::NonNeg(_, Some(_)))).map(|(j, _)| j).collect();
                // not next to a duplicate row: two copies of a row that differ by 2e-6 * v are consistent only
                // within the solvers' tolerance, which is a different question (C05's band)
                let has_twin_rows = (0..spec.rows.len()).any(|a| (0..a).any(|c| spec.rows[a].a == spec.rows[c].a));
                if let (Some(&j), false, false) = (boxed.first(), spec.rows.is_empty(), has_twin_rows) {
                    let i = rng.gen_range(0..spec.rows.len());
                    spec.rows[i].a[j] = [5e-6, -8e-6, 2e-6][rng.gen_range(0..3)];
                    if let VSpec::Real(_, Some(hi)) | VSpec::NonNeg(_, Some(hi)) = &mut spec.vars[j].1 {
                        // (a box of a few thousand makes the term worth a few hundredths, well above every tolerance band)
                        *hi += [10.0, 2000.0, 5000.0][rng.gen_range(0..3)];
                    }
                    origin = "g-lp-tiny-coefficient";
                }
            }
            v.push((spec, origin));
        }
    }
    v
}

fn structure_tags(spec: &LmSpec) -> Vec<&'static str> {
    let mut t = vec![];
    if spec.vars.iter().any(|(_, v)| matches!(v, VSpec::Real(None, None))) {
        t.push("free-variable");
    }
    if spec.rows.iter().any(|r| r.a.iter().all(|c| *c == 0.0)) {
        t.push("empty-row");
    }
    for i in 0..spec.rows.len() {
        for j in 0..i {
            if spec.rows[i].a == spec.rows[j].a {
                t.push("duplicate-or-parallel-rows");
                break;
            }
        }
    }
    if spec.rows.iter().filter(|r| r.rel == "=").count() >= 2 {
        t.push("equality-dense");
    }
    t.sort();
    t.dedup();
    t
}

impl Driver for C04 {
    fn id(&self) -> &'static str {
        "C04"
    }
    fn sandboxed(&self) -> bool {
        true
    }
    fn cpu_budget_s(&self) -> f64 {
        5.0
    }
    fn units(&self, tier: Tier) -> usize {
        tier.pick(16000, 640000)
    }
    fn run_unit(&self, ctx: &Ctx, out: &mut UnitOut, start: usize, only: Option<usize>) {
        let mut rng = unit_rng(ctx, "C04", out.unit);
        let models = unit_models(&mut rng, 10, true);
        let mut case = 0usize;
        for (spec, origin) in &models {
            // a third of the models carry their domain map in another order than their column list
            let lm = if rng.gen_range(0..3) == 0 { spec.to_rooc_domain_shuffled(&mut rng) } else { spec.to_rooc() };
            let xl = XLin::from_rooc(&lm).ok();
            for solver in SOLVERS {
                let this = case;
                case += 1;
                if this < start || only.is_some_and(|o| o != this) {
                    continue;
                }
                let Some(xl) = &xl else {
                    out.inconclusive("model with non-finite numbers");
                    continue;
                };
                out.begin_case(this, &json!({"solver": solver, "model": spec}).to_string());
                let outcome = run_solver(solver, &lm);
                out.end_case();
                out.eval();
                out.tag(&format!("{solver}:{}", outcome.kind()));
                match &outcome {
                    Outcome::Solved(sol) => {
                        out.tag(&format!("origin:{origin}"));
                        match certify_solution(xl, &lm, sol, true) {
                            Ok(_) => {
                                out.tag("certified");
                                out.nontrivial(hash_str(&format!("{solver}|{}", serde_json::to_string(spec).unwrap())));
                                for t in structure_tags(spec) {
                                    out.tag(&format!("solved-with:{t}"));
                                }
                                if out.report.samples.is_empty() && out.unit < 4 {
                                    out.sample(json!({"solver": solver, "model": lm.to_string(), "solution": sol_json(sol)}));
                                }
                            }
                            Err((class, what)) => {
                                let truth = solve_milp(&xl.to_lp(), 50_000).map(|(a, _)| a.kind()).unwrap_or("undecided");
                                let sig = if solver == "tableau" && spec.coefficient_range() == "wide" {
                                    "tableau-simplex-unreliable-on-wide-coefficient-range(spread>=50 or min<=0.05)".to_string()
                                } else if solver == "clarabel" && truth == "unbounded" {
                                    "clarabel:solution-returned-for-unbounded-model".to_string()
                                } else if solver == "clarabel" && truth == "infeasible" && sol.values.iter().any(|v| v.abs() >= 1e6) {
                                    "clarabel:astronomical-point-returned-for-infeasible-model(|x|>=1e6)".to_string()
                                } else if (solver == "tableau" || solver == "clarabel") && class.starts_with("tolerance-level") {
                                    format!("{solver}:tolerance-level-violation(1e-6..1e-3)")
                                } else if solver == "tableau" && amplified_tolerance(&what) {
                                    "tableau:tolerance-amplified-violation(1e-3..1e-2)".to_string()
                                } else if matches!(solver, "auto" | "milp" | "microlp-real") && has_tiny_coefficient(spec) {
                                    "microlp:point-violating-a-row-on-model-with-coefficient-below-1e-5".to_string()
                                } else {
                                    format!("{solver}:{class};truth={truth}")
                                };
                                out.violation(
                                    &sig,
                                    &format!("{solver} returned a solution that fails its certificate: {what}"),
                                    json!({"solver": solver, "model": spec, "model_text": lm.to_string(), "solution": sol_json(sol), "why": what}),
                                );
                            }
                        }
                    }
                    Outcome::Panicked(_) => out.inconclusive("solver panicked (C18's concern)"),
                    _ => {}
                }
            }
        }
    }
    fn on_crash(&self, _c: &Crash) -> Option<(String, String)> {
        None // no solution was returned: nothing to certify (C05/C18 judge hangs)
    }
    fn rule(&self) -> String {
        "linear/MILP models (G-lp: <=6 variables, <=6 rows, planted feasible/tight/violated rows, empty and duplicate rows, free/bounded/half-bounded variables, coefficients from small integers, halves and 0.01..100 so that 1e-6 is attainable in double precision, min/max/satisfy, offsets; plus linear models produced by the real Linearizer from G-model) x the five built-in entry points (solve_milp_lp_problem, auto_solver, solve_real_lp_problem_micro_lp, solve_real_lp_problem_clarabel, solve_real_lp_problem_slow_simplex); every returned solution is re-checked exactly against the model it came from: one value per variable, bounds/0-1/integrality and rows within 1e-6 (scaled), value() == c.x+offset, named-row activities == lhs; each call runs in a sacrificial worker under a 5 s CPU budget; distinct non-trivial = distinct (solver, model) pairs that returned a solution".into()
    }
    fn thresholds(&self, tier: Tier) -> Thresholds {
        let s = tier.pick(40, 400);
        Thresholds {
            min_tags: vec![
                ("certified", 2000 * s),
                ("milp:solved", 400 * s),
                ("auto:solved", 400 * s),
                ("microlp-real:solved", 150 * s),
                ("clarabel:solved", 150 * s),
                ("tableau:solved", 150 * s),
                ("origin:from-linearizer", 200 * s),
                ("solved-with:free-variable", 100 * s),
                ("solved-with:empty-row", 50 * s),
            ],
            min_nontrivial: 2000 * s,
        }
    }
    fn assumptions(&self) -> Vec<String> {
        vec![
            "a solver that rejects the model's domains, objective kind or comparison is 'not accepting' it".into(),
            "an activity reported under the empty name is not a named-row activity and is ignored".into(),
        ]
    }
}

// ---------------------------------------------------------------------------
// C05
// ---------------------------------------------------------------------------

/// Structural preconditions used to key known findings.
fn c05_preconditions(spec: &LmSpec) -> Vec<&'static str> {
    let mut t = vec![];
    let free_zero_cost = spec.vars.iter().enumerate().any(|(j, (_, v))| {
        matches!(v, VSpec::Real(None, None)) && spec.obj.get(j).copied().unwrap_or(0.0) == 0.0
    });
    if free_zero_cost {
        t.push("free-variable-with-zero-cost");
    }
    if spec.vars.iter().any(|(_, v)| matches!(v, VSpec::Real(None, None))) {
        t.push("free-variable");
    }
    t
}

fn precondition_label(spec: &LmSpec) -> &'static str {
    let p = c05_preconditions(spec);
    if p.contains(&"free-variable-with-zero-cost") {
        "free-variable-with-zero-cost"
    } else if p.contains(&"free-variable") {
        "free-variable"
    } else {
        "no-free-variable"
    }
}

/// The certificate's explanation ends with "by <scaled violation> (scaled)".
/// a non-zero row coefficient of magnitude below 1e-5
fn has_tiny_coefficient(spec: &LmSpec) -> bool {
    spec.rows.iter().any(|r| r.a.iter().any(|a| *a != 0.0 && a.abs() < 1e-5))
}

fn amplified_tolerance(what: &str) -> bool {
    what.rsplit(" by ").next().and_then(|t| t.split_whitespace().next()).and_then(|v| v.parse::<f64>().ok()).is_some_and(|v| v > 1e-3 && v <= 1e-2)
}

/// Structural precondition of a known finding: a continuous variable whose interval is narrower than
/// 1e-4 (relative) without being a point - what bound tightening leaves around a point that
/// equality rows determine.
pub fn near_degenerate_interval(spec: &LmSpec) -> bool {
    spec.vars.iter().any(|(_, t)| {
        let (lo, hi) = match t {
            VSpec::Real(Some(lo), Some(hi)) => (*lo, *hi),
            VSpec::NonNeg(lo, Some(hi)) => (*lo, *hi),
            _ => return false,
        };
        hi > lo && hi - lo < 1e-4 * lo.abs().max(hi.abs()).max(1.0)
    })
}

/// Structural precondition of a known finding: the model carries a finite number of magnitude >= 1e100.
fn astronomical(spec: &LmSpec) -> bool {
    let big = |f: f64| f.is_finite() && f.abs() >= 1e100;
    spec.rows.iter().any(|r| r.a.iter().any(|c| big(*c)) || big(r.b))
        || spec.obj.iter().any(|c| big(*c))
        || spec.vars.iter().any(|(_, t)| match t {
            VSpec::Real(lo, hi) => lo.is_some_and(big) || hi.is_some_and(big),
            VSpec::NonNeg(lo, hi) => big(*lo) || hi.is_some_and(big),
            _ => false,
        })
}

fn relaxed_kind(lp: &Lp, eps: &Q) -> Option<&'static str> {
    solve_milp(&relax(lp, eps), 50_000).ok().map(|(a, _)| a.kind())
}

impl Driver for C05 {
    fn id(&self) -> &'static str {
        "C05"
    }
    fn sandboxed(&self) -> bool {
        true
    }
    fn cpu_budget_s(&self) -> f64 {
        5.0
    }
    fn units(&self, tier: Tier) -> usize {
        tier.pick(16000, 640000)
    }
    fn run_unit(&self, ctx: &Ctx, out: &mut UnitOut, start: usize, only: Option<usize>) {
        let mut rng = unit_rng(ctx, "C05", out.unit);
        let models = unit_models(&mut rng, 10, false);
        let mut case = 0usize;
        for (spec, origin) in &models {
            // a third of the models carry their domain map in another order than their column list
            let lm = if rng.gen_range(0..3) == 0 { spec.to_rooc_domain_shuffled(&mut rng) } else { spec.to_rooc() };
            let xl = XLin::from_rooc(&lm).ok();
            let mut oracle: Option<Result<LpAnswer, String>> = None;
            for solver in SOLVERS {
                let this = case;
                case += 1;
                if this < start || only.is_some_and(|o| o != this) {
                    continue;
                }
                let Some(xl) = &xl else {
                    out.inconclusive("model with non-finite numbers");
                    continue;
                };
                let desc = json!({"solver": solver, "precondition": precondition_label(spec), "model": spec}).to_string();
                out.begin_case(this, &desc);
                let outcome = run_solver(solver, &lm);
                out.end_case();
                out.eval();
                if matches!(outcome, Outcome::NotAccepted(_)) {
                    out.tag(&format!("{solver}:not-accepted"));
                    continue;
                }
                let lp = xl.to_lp();
                if oracle.is_none() {
                    oracle = Some(solve_milp(&lp, 50_000).map(|(a, _)| a).map_err(|e| e.to_string()));
                }
                let truth = match oracle.as_ref().unwrap() {
                    Ok(a) => a.clone(),
                    Err(e) => {
                        out.inconclusive(&format!("oracle: {e}"));
                        continue;
                    }
                };
                let huge = |x: &Vec<Q>| x.iter().any(|v| v.abs() > qi(1_000_000));
                match &truth {
                    LpAnswer::Optimal { x, .. } | LpAnswer::Unbounded { x, .. } if huge(x) => {
                        // nearly parallel rows: the exact model is solvable only at astronomically
                        // large values, a float solver cannot be judged against that
                        out.inconclusive("ill-conditioned: exact solution beyond 1e6");
                        continue;
                    }
                    _ => {}
                }
                let tkind = truth.kind();
                out.tag(&format!("truth:{tkind}"));
                out.tag(&format!("origin:{origin}"));
                let detail = |extra: Value| -> Value {
                    json!({"solver": solver, "model": spec, "model_text": lm.to_string(), "oracle": tkind,
                           "oracle_value": match &truth { LpAnswer::Optimal{value,..} => Some(show(value)), _ => None },
                           "observed": extra})
                };
                let pre = precondition_label(spec);
                let tol = tol6();
                match &outcome {
                    Outcome::Solved(sol) => match &truth {
                        LpAnswer::Optimal { value, .. } => {
                            let got = q(sol.value);
                            let ok = got.as_ref().is_some_and(|g| (g - value).abs() <= &tol * qmax(&one(), &value.abs()));
                            if ok {
                                if out.report.samples.is_empty() && out.unit < 6 {
                                    out.sample(json!({"solver": solver, "model": lm.to_string(), "solver_value": sol.value, "certified_optimum": show(value)}));
                                }
                                out.tag(&format!("{solver}:agrees:optimal"));
                                out.nontrivial(hash_str(&format!("{solver}|{}", serde_json::to_string(spec).unwrap())));
                            } else if xl.sense == rooc::OptimizationType::Satisfy {
                                out.tag(&format!("{solver}:agrees:optimal"));
                            } else if {
                                // tolerance band: the solver may legitimately use points that are
                                // feasible only within 1e-6; its value must then lie between the
                                // optimum of the 1e-6-relaxed model and the exact optimum
                                let relaxed = solve_milp(&relax(&lp, &tol), 50_000).ok().map(|(a, _)| a);
                                match (&relaxed, &got) {
                                    (Some(LpAnswer::Optimal { value: rv, .. }), Some(g)) => {
                                        let slack = &tol * qmax(&one(), &value.abs());
                                        let (lo, hi) = if lp.maximize { (value.clone(), rv.clone()) } else { (rv.clone(), value.clone()) };
                                        *g >= &lo - &slack && *g <= &hi + &slack
                                    }
                                    (Some(LpAnswer::Unbounded { .. }), Some(_)) => true,
                                    _ => false,
                                }
                            } {
                                out.inconclusive("optimal value differs only within the 1e-6 tolerance band");
                            } else if (solver == "clarabel" || solver == "tableau") && got.as_ref().is_some_and(|g| (g - value).abs() <= pow10_neg(4) * qmax(&one(), &value.abs())) {
                                out.violation(
                                    &format!("{solver}:optimal-value-off-by-1e-6..1e-4(relative)"),
                                    &format!("{solver} reports optimum {} but the certified optimum is {}", sol.value, show(value)),
                                    detail(sol_json(sol)),
                                );
                            } else {
                                out.violation(
                                    &format!("{solver}:wrong-optimal-value({pre})"),
                                    &format!("{solver} reports optimum {} but the certified optimum is {}", sol.value, show(value)),
                                    detail(sol_json(sol)),
                                );
                            }
                        }
                        other => {
                            // tolerance band: a model that is feasible/bounded within 1e-6 is not decidable here
                            if relaxed_kind(&lp, &tol) == Some("optimal") {
                                out.inconclusive("verdict differs only within the 1e-6 tolerance band");
                            } else {
                                let sig = if solver == "clarabel" && other.kind() == "unbounded" {
                                    "clarabel:solution-returned-for-unbounded-model".to_string()
                                } else if solver == "clarabel" && sol.values.iter().any(|v| v.abs() >= 1e6) {
                                    "clarabel:astronomical-point-returned-for-infeasible-model(|x|>=1e6)".to_string()
                                } else {
                                    format!("{solver}:solution-on-{}({pre})", other.kind())
                                };
                                out.violation(
                                    &sig,
                                    &format!("{solver} returned a solution although the model is {}", other.kind()),
                                    detail(sol_json(sol)),
                                );
                            }
                        }
                    },
                    Outcome::Infeasible => {
                        if tkind == "infeasible" {
                            out.tag(&format!("{solver}:agrees:infeasible"));
                            out.nontrivial(hash_str(&format!("{solver}|{}", serde_json::to_string(spec).unwrap())));
                        } else if near_degenerate_interval(spec) && solver != "clarabel" {
                            out.violation(
                                &format!("{}:Infeasible-on-feasible-model(variable interval narrower than 1e-4)", if solver == "tableau" { "tableau" } else { "microlp" }),
                                &format!("{solver} reports Infeasible but the model is {tkind}; a continuous variable has an interval narrower than 1e-4"),
                                detail(json!("Infeasible")),
                            );
                        } else {
                            out.violation(
                                &format!("{solver}:Infeasible-on-{tkind}({pre})"),
                                &format!("{solver} reports Infeasible but the model is {tkind}"),
                                detail(json!("Infeasible")),
                            );
                        }
                    }
                    Outcome::Unbounded => {
                        if tkind == "unbounded" {
                            out.tag(&format!("{solver}:agrees:unbounded"));
                            out.nontrivial(hash_str(&format!("{solver}|{}", serde_json::to_string(spec).unwrap())));
                        } else if tkind == "infeasible" && relaxed_kind(&lp, &tol) == Some("unbounded") {
                            out.inconclusive("verdict differs only within the 1e-6 tolerance band");
                        } else if astronomical(spec) {
                            // bounds like -6e307 (a bound propagation that diverged on an infeasible source): no float method
                            // tells 'below -6e307' from 'unbounded below'
                            out.violation(
                                "wrong-verdict-on-astronomically-scaled-model(|number|>=1e100)",
                                &format!("{solver} reports Unbounded but the model, which contains a number of magnitude >= 1e100, is {tkind}"),
                                detail(json!("Unbounded")),
                            );
                        } else {
                            out.violation(
                                &format!("{solver}:Unbounded-on-{tkind}({pre})"),
                                &format!("{solver} reports Unbounded but the model is {tkind}"),
                                detail(json!("Unbounded")),
                            );
                        }
                    }
                    Outcome::Failed(kind, msg) => {
                        if solver == "clarabel" {
                            out.tag("clarabel:no-answer");
                        } else if astronomical(spec) {
                            // bound propagation that diverged on an infeasible source model publishes
                            // bounds like 9e307; no float method decides such a model
                            out.violation(
                                "no-verdict-on-astronomically-scaled-model(|number|>=1e100)",
                                &format!("{solver} ended with error kind {kind} on a model that contains a number of magnitude >= 1e100; the model is {tkind}"),
                                detail(json!({"error_kind": kind, "message": msg})),
                            );
                        } else if msg.contains("Singular matrix") && matches!(solver, "auto" | "milp" | "microlp-real") {
                            // a numerical failure inside MicroLP's basis factorisation, handed on as SolverError::Other
                            out.violation(
                                "microlp:no-verdict(Singular matrix)",
                                &format!("{solver} ended with \"{msg}\" instead of optimum/Infeasible/Unbounded; the model is {tkind}"),
                                detail(json!({"error_kind": kind, "message": msg})),
                            );
                        } else {
                            let class: String = msg.chars().take_while(|c| !c.is_ascii_digit() && *c != ':').collect();
                            out.violation(
                                &format!("{solver}:no-verdict({kind}:{};truth={tkind})", class.trim()),
                                &format!("{solver} ended with error kind {kind} (\"{msg}\") instead of optimum/Infeasible/Unbounded; the model is {tkind}"),
                                detail(json!({"error_kind": kind, "message": msg})),
                            );
                        }
                    }
                    Outcome::Panicked(msg) => {
                        out.violation(
                            &format!("{solver}:panic"),
                            &format!("{solver} panicked: {msg}"),
                            detail(json!({"panic": msg})),
                        );
                    }
                    Outcome::NotAccepted(_) => {}
                }
            }
        }
    }
    fn on_crash(&self, c: &Crash) -> Option<(String, String)> {
        let v: Value = serde_json::from_str(&c.desc).ok()?;
        let solver = v["solver"].as_str().unwrap_or("?");
        let pre = v["precondition"].as_str().unwrap_or("?");
        Some((
            format!("{solver}:never-returns({};{pre})", c.kind),
            format!("{solver} did not reach a verdict: worker ended with {} on a model of <=6 variables", c.kind),
        ))
    }
    fn rule(&self) -> String {
        "same models as C04 without extreme coefficients; every verdict of every accepting entry point is compared with the certified exact rational LP/MILP oracle: optimum within 1e-6 relative, Infeasible only with a Farkas certificate, Unbounded only with a feasible point and an improving ray; any other error kind, a panic, or exhausting the 5 s CPU budget is 'no verdict' for the microlp-based and tableau solvers (Clarabel may decline numerically); distinct non-trivial = distinct (solver, model) pairs whose verdict was confirmed".into()
    }
    fn thresholds(&self, tier: Tier) -> Thresholds {
        let s = tier.pick(40, 400);
        Thresholds {
            min_tags: vec![
                ("truth:optimal", 3000 * s),
                ("truth:infeasible", 1000 * s),
                ("truth:unbounded", 300 * s),
                ("milp:agrees:optimal", 500 * s),
                ("milp:agrees:infeasible", 200 * s),
                ("tableau:agrees:optimal", 100 * s),
                ("clarabel:agrees:optimal", 100 * s),
                ("microlp-real:agrees:optimal", 100 * s),
                ("origin:from-linearizer", 300 * s),
                ("origin:g-lp-through-linearizer", 100 * s),
            ],
            min_nontrivial: 2000 * s,
        }
    }
    fn assumptions(&self) -> Vec<String> {
        vec![
            "the CPU budget (5 s for <=14 variables, typical solve time 100 us) decides 'never returns'".into(),
            "a solution returned for a model that is infeasible/unbounded exactly but optimal after a 1e-6 relaxation is inconclusive".into(),
        ]
    }
}
