//! C10 - algebraic rewrites (simplify / flatten) and constant spelling preserve meaning.
use crate::ast::*;
use crate::compile::*;
use crate::gen_model::*;
use crate::lin::*;
use crate::rat::*;
use crate::runner::*;
use num_traits::{Signed, Zero};
use rand::Rng;
use rand_chacha::ChaCha8Rng;
use rooc::model_transformer::Exp;
use rooc::{BinOp, UnOp};
use serde_json::{Value, json};

pub struct C10;

/// rooc expression -> harness expression (variables by position in `names`).
pub fn from_exp(e: &Exp, names: &[String]) -> Option<E> {
    let bx = |x: &Exp| from_exp(x, names).map(Box::new);
    let vx = |xs: &Vec<Exp>| xs.iter().map(|x| from_exp(x, names)).collect::<Option<Vec<_>>>();
    Some(match e {
        Exp::Number(f) => E::Num(*f),
        Exp::Variable(n) => E::Var(names.iter().position(|x| x == n)?),
        Exp::Abs(a) => E::Abs(bx(a)?),
        Exp::Min(xs) => E::Min(vx(xs)?),
        Exp::Max(xs) => E::Max(vx(xs)?),
        Exp::And(xs) => E::And(vx(xs)?),
        Exp::Or(xs) => E::Or(vx(xs)?),
        Exp::Not(a) => E::Not(bx(a)?),
        Exp::Xor(a, c) => E::Xor(bx(a)?, bx(c)?),
        Exp::Implies(a, c) => E::Implies(bx(a)?, bx(c)?),
        Exp::Iff(a, c) => E::Iff(bx(a)?, bx(c)?),
        Exp::BinOp(op, a, c) => {
            let (a, c) = (bx(a)?, bx(c)?);
            match op {
                BinOp::Add => E::Add(a, c),
                BinOp::Sub => E::Sub(a, c),
                BinOp::Mul => E::Mul(a, c),
                BinOp::Div => E::Div(a, c),
                BinOp::And => E::And(vec![*a, *c]),
                BinOp::Or => E::Or(vec![*a, *c]),
                BinOp::Xor => E::Xor(a, c),
                BinOp::Implies => E::Implies(a, c),
                BinOp::Iff => E::Iff(a, c),
            }
        }
        Exp::UnOp(UnOp::Neg, a) => E::Neg(bx(a)?),
        Exp::UnOp(UnOp::Not, a) => E::Not(bx(a)?),
    })
}

fn exp_json(e: &Exp) -> String {
    serde_json::to_string(e).unwrap_or_default()
}

const LEAVES: [f64; 8] = [0.0, 1.0, -0.0, 2.0, 0.5, 3.0, -1.0, -2.5];

fn leaf(k: usize) -> Exp {
    match k {
        0 => Exp::Variable("x".into()),
        1 => Exp::Variable("y".into()),
        n => Exp::Number(LEAVES[n - 2]),
    }
}
const NLEAF: usize = 10;

fn unary(k: usize, a: Exp) -> Exp {
    match k {
        0 => Exp::UnOp(UnOp::Neg, Box::new(a)),
        1 => Exp::Abs(Box::new(a)),
        2 => Exp::Not(Box::new(a)),
        _ => Exp::UnOp(UnOp::Not, Box::new(a)),
    }
}
const NUN: usize = 4;

fn binary(k: usize, a: Exp, b_: Exp) -> Exp {
    let bx = Box::new;
    match k {
        0 => Exp::BinOp(BinOp::Add, bx(a), bx(b_)),
        1 => Exp::BinOp(BinOp::Sub, bx(a), bx(b_)),
        2 => Exp::BinOp(BinOp::Mul, bx(a), bx(b_)),
        3 => Exp::BinOp(BinOp::Div, bx(a), bx(b_)),
        4 => Exp::Min(vec![a, b_]),
        5 => Exp::Max(vec![a, b_]),
        6 => Exp::And(vec![a, b_]),
        7 => Exp::Or(vec![a, b_]),
        8 => Exp::Xor(bx(a), bx(b_)),
        9 => Exp::Implies(bx(a), bx(b_)),
        10 => Exp::Iff(bx(a), bx(b_)),
        11 => Exp::BinOp(BinOp::And, bx(a), bx(b_)),
        12 => Exp::BinOp(BinOp::Or, bx(a), bx(b_)),
        13 => Exp::BinOp(BinOp::Implies, bx(a), bx(b_)),
        _ => Exp::BinOp(BinOp::Xor, bx(a), bx(b_)),
    }
}
const NBIN: usize = 15;

/// All trees with exactly `ops` operators (ops <= 2), enumerated by index.
fn trees_with(ops: usize) -> Vec<Exp> {
    match ops {
        0 => (0..NLEAF).map(leaf).collect(),
        1 => {
            let l = trees_with(0);
            let mut v = vec![];
            for k in 0..NUN {
                for a in &l {
                    v.push(unary(k, a.clone()));
                }
            }
            for k in 0..NBIN {
                for a in &l {
                    for b_ in &l {
                        v.push(binary(k, a.clone(), b_.clone()));
                    }
                }
            }
            v
        }
        _ => {
            let l0 = trees_with(0);
            let l1 = trees_with(1);
            let mut v = vec![];
            for k in 0..NUN {
                for a in &l1 {
                    v.push(unary(k, a.clone()));
                }
            }
            for k in 0..NBIN {
                for a in &l1 {
                    for b_ in &l0 {
                        v.push(binary(k, a.clone(), b_.clone()));
                        v.push(binary(k, b_.clone(), a.clone()));
                    }
                }
            }
            v
        }
    }
}

fn random_tree(rng: &mut ChaCha8Rng, depth: u32) -> Exp {
    if depth == 0 || rng.gen_bool(0.2) {
        return leaf(rng.gen_range(0..NLEAF));
    }
    match rng.gen_range(0..10) {
        0 | 1 => unary(rng.gen_range(0..NUN), random_tree(rng, depth - 1)),
        2 => {
            let n = rng.gen_range(1..=3);
            let xs = (0..n).map(|_| random_tree(rng, depth - 1)).collect();
            match rng.gen_range(0..4) {
                0 => Exp::And(xs),
                1 => Exp::Or(xs),
                2 => Exp::Min(xs),
                _ => Exp::Max(xs),
            }
        }
        _ => binary(rng.gen_range(0..NBIN), random_tree(rng, depth - 1), random_tree(rng, depth - 1)),
    }
}

/// An absorbing rewrite candidate (0 * e, e * 0, false and e, true or e) whose other operand hides a division
/// by zero or by a variable under further operators: numerator of a division by a constant, a block, a sum.
fn absorber_tree(rng: &mut ChaCha8Rng) -> Exp {
    let x = || leaf(0);
    let y = || leaf(1);
    let num = |v: f64| Exp::Number(v);
    let div = |a: Exp, c: Exp| binary(3, a, c);
    let bad = match rng.gen_range(0..4) {
        0 => div(x(), num(0.0)),
        1 => div(num(1.0), x()),
        2 => div(y(), binary(1, x(), x())),
        _ => div(num(2.0), binary(2, num(0.0), y())),
    };
    let wrapped = match rng.gen_range(0..8) {
        0 => div(bad, num(2.0)),
        1 => div(div(bad, num(4.0)), num(0.5)),
        2 => unary(1, div(binary(0, y(), bad), num(2.0))),
        3 => unary(0, div(bad, num(2.0))),
        4 => binary(0, div(bad, num(2.0)), num(1.0)),
        5 => Exp::Max(vec![div(bad, num(3.0)), num(1.0)]),
        6 => binary(2, div(bad, num(2.0)), num(3.0)),
        _ => bad,
    };
    match rng.gen_range(0..6) {
        0 => binary(2, num(0.0), wrapped),
        1 => binary(2, wrapped, num(0.0)),
        2 => Exp::And(vec![y(), num(0.0), wrapped]),
        3 => Exp::Or(vec![num(1.0), wrapped]),
        4 => binary(11, num(0.0), wrapped),
        _ => binary(2, num(-0.0), wrapped),
    }
}

fn assignments() -> Vec<Vec<Q>> {
    let vals = [qi(0), qi(1), qi(2), qf(-3, 2)];
    let mut v = vec![];
    for a in &vals {
        for b_ in &vals {
            v.push(vec![a.clone(), b_.clone()]);
        }
    }
    v
}

fn values_agree(a: &Q, b_: &Q) -> bool {
    a == b_ || (a - b_).abs() <= pow10_neg(12) * qmax(&one(), &a.abs())
}

/// true when, at this assignment, some logic operator of the expression has an operand whose value is
/// neither 0 nor 1: simplify's identity rules ('x and true' -> 'x') assume 0/1 operands (well-typed models).
fn logic_operand_not_boolean(e: &E, p: &[Q]) -> bool {
    let mut found = false;
    e.visit(&mut |x| {
        let ops: Vec<&E> = match x {
            E::And(xs) | E::Or(xs) => xs.iter().collect(),
            E::Not(a) => vec![a],
            E::Xor(a, c) | E::Implies(a, c) | E::Iff(a, c) => vec![a, c],
            _ => vec![],
        };
        for o in ops {
            // a constant operand has a truth value of its own (non-zero is true): only operands that depend on
            // a variable fall under the recorded finding
            if !o.mentions_variable() {
                continue;
            }
            if let Ok(v) = o.eval(p) {
                if !(v.is_zero() || v == one()) {
                    found = true;
                }
            }
        }
    });
    found
}

/// true when some logic operand evaluates to a non-zero value below 1e-9 in magnitude.
fn logic_operand_rounding_residue(e: &E, p: &[Q]) -> bool {
    let mut found = false;
    e.visit(&mut |x| {
        let ops: Vec<&E> = match x {
            E::And(xs) | E::Or(xs) => xs.iter().collect(),
            E::Not(a) => vec![a],
            E::Xor(a, c) | E::Implies(a, c) | E::Iff(a, c) => vec![a, c],
            _ => vec![],
        };
        for o in ops {
            if let Ok(v) = o.eval(p) {
                if !v.is_zero() && v.abs() < pow10_neg(9) {
                    found = true;
                }
            }
        }
    });
    found
}

fn rewrite_class(orig: &Exp) -> &'static str {
    // the rule family a failing rewrite most plausibly comes from: key for known findings
    fn has(e: &Exp, f: &dyn Fn(&Exp) -> bool) -> bool {
        if f(e) {
            return true;
        }
        match e {
            Exp::Number(_) | Exp::Variable(_) => false,
            Exp::Abs(a) | Exp::Not(a) | Exp::UnOp(_, a) => has(a, f),
            Exp::Min(xs) | Exp::Max(xs) | Exp::And(xs) | Exp::Or(xs) => xs.iter().any(|x| has(x, f)),
            Exp::Xor(a, c) | Exp::Implies(a, c) | Exp::Iff(a, c) | Exp::BinOp(_, a, c) => has(a, f) || has(c, f),
        }
    }
    let mul_by_zero = has(orig, &|e| matches!(e, Exp::BinOp(BinOp::Mul, a, c) if matches!(**a, Exp::Number(v) if v == 0.0) || matches!(**c, Exp::Number(v) if v == 0.0)));
    let div = has(orig, &|e| matches!(e, Exp::BinOp(BinOp::Div, _, _)));
    if mul_by_zero && div {
        "Mul-by-0-over-Div"
    } else if div {
        "Div"
    } else {
        "other"
    }
}

/// Checks one expression: Err((signature, explanation, detail)).
pub fn check_rewrites(e: &Exp, names: &[String], pts: &[Vec<Q>]) -> Result<u64, (String, String, Value)> {
    let simp = e.simplify();
    let flat = e.clone().flatten();
    let both = e.clone().flatten().simplify();
    let Some(orig) = from_exp(e, names) else { return Ok(0) };
    let mut evals = 0;
    for (label, r) in [("simplify", &simp), ("flatten", &flat), ("flatten+simplify", &both)] {
        let Some(rw) = from_exp(r, names) else { return Ok(evals) };
        for p in pts {
            evals += 1;
            match (orig.eval(p), rw.eval(p)) {
                (Ok(a), Ok(b_)) => {
                    if !values_agree(&a, &b_) {
                        if logic_operand_rounding_residue(&orig, p) || logic_operand_rounding_residue(&rw, p) {
                            // 1/3 folded to 0.3333333333333333 leaves -1.85e-17 under exact evaluation where
                            // float evaluation gives exactly 0: the truth value of such an operand is not decidable
                            continue;
                        }
                        if logic_operand_not_boolean(&orig, p) {
                            return Err((
                                "logic-identity-rule-applied-to-non-0/1-operand".into(),
                                format!("{label} changes the value from {} to {} at x={}, y={}, where a logic operand is not 0/1", show(&a), show(&b_), show(&p[0]), show(&p[1])),
                                json!({"expression": e.to_string(), "rewritten": r.to_string(), "tree": exp_json(e)}),
                            ));
                        }
                        return Err((
                            format!("{label}-changes-value({})", rewrite_class(e)),
                            format!("{label} changes the value from {} to {} at x={}, y={}", show(&a), show(&b_), show(&p[0]), show(&p[1])),
                            json!({"expression": e.to_string(), "rewritten": r.to_string(), "tree": exp_json(e)}),
                        ));
                    }
                }
                (Ok(a), Err(_)) => {
                    if logic_operand_not_boolean(&orig, p) {
                        return Err((
                            "logic-identity-rule-applied-to-non-0/1-operand".into(),
                            format!("the original evaluates to {} but the rewritten expression is undefined at x={}, y={}, where a logic operand is not 0/1", show(&a), show(&p[0]), show(&p[1])),
                            json!({"expression": e.to_string(), "rewritten": r.to_string(), "tree": exp_json(e)}),
                        ));
                    }
                    return Err((
                        format!("{label}-makes-defined-expression-undefined({})", rewrite_class(e)),
                        format!("the original evaluates to {} but the rewritten expression is undefined at x={}, y={}", show(&a), show(&p[0]), show(&p[1])),
                        json!({"expression": e.to_string(), "rewritten": r.to_string(), "tree": exp_json(e)}),
                    ));
                }
                (Err(Undef::DivZero), Ok(_)) if logic_operand_not_boolean(&orig, p) => {
                    return Err((
                        "logic-identity-rule-applied-to-non-0/1-operand".into(),
                        format!("the original divides by zero at x={}, y={} (a logic operand is not 0/1 there) but the rewritten expression is defined", show(&p[0]), show(&p[1])),
                        json!({"expression": e.to_string(), "rewritten": r.to_string(), "tree": exp_json(e)}),
                    ));
                }
                (Err(Undef::DivZero), Ok(b_)) => {
                    return Err((
                        format!("{label}-rewrites-division-by-zero-away({})", rewrite_class(e)),
                        format!("the original divides by zero at x={}, y={} but the rewritten expression evaluates to {}", show(&p[0]), show(&p[1]), show(&b_)),
                        json!({"expression": e.to_string(), "rewritten": r.to_string(), "tree": exp_json(e)}),
                    ));
                }
                _ => {}
            }
        }
    }
    // idempotence of simplify (structural, via the serialised form)
    let again = simp.simplify();
    if exp_json(&again) != exp_json(&simp) {
        return Err((
            "simplify-not-idempotent".into(),
            "simplify(simplify(e)) differs from simplify(e)".into(),
            json!({"expression": e.to_string(), "once": simp.to_string(), "twice": again.to_string(), "tree": exp_json(e)}),
        ));
    }
    Ok(evals)
}

// ---------------------------------------------------------------------------
// spelling twins
// ---------------------------------------------------------------------------

/// Re-spells every `c * e` / `e * c` product (c a literal) in one of the equivalent ways.
fn respell(e: &E, rng: &mut ChaCha8Rng, how: usize) -> E {
    let r = |x: &E, rng: &mut ChaCha8Rng| Box::new(respell(x, rng, how));
    let rv = |xs: &Vec<E>, rng: &mut ChaCha8Rng| xs.iter().map(|x| respell(x, rng, how)).collect::<Vec<_>>();
    match e {
        E::Mul(a, c) => {
            let (k, other) = match (&**a, &**c) {
                (E::Num(k), o) => (Some(*k), o.clone()),
                (o, E::Num(k)) => (Some(*k), o.clone()),
                _ => (None, E::Num(0.0)),
            };
            match k {
                Some(k) if k.is_finite() => {
                    let o = respell(&other, rng, how);
                    let kk = E::Num(k);
                    match how {
                        0 => E::mul(kk, o),                                                    // c * x
                        1 => E::mul(o, kk),                                                    // x * c
                        2 => E::mul(E::Neg(b(E::Num(-k))), o),                                 // -(-c) * x
                        3 => E::mul(E::sub(E::Num(0.0), E::Num(-k)), o),                       // (0 - (-c)) * x
                        4 => E::mul(E::add(E::Num(k / 2.0), E::Num(k / 2.0)), o),              // (c/2 + c/2) * x
                        5 if k != 0.0 && (1.0 / k) * k == 1.0 && 1.0 / (1.0 / k) == k => E::div(o, E::Num(1.0 / k)), // x / (1/c)
                        6 => E::mul(E::mul(E::Num(1.0), kk), o),                               // 1 * c * x
                        7 => E::Neg(b(E::mul(E::Num(-k), o))),                                 // -((-c) * x)
                        8 if k == -1.0 => E::Neg(b(o)),                                        // -(x) for c = -1
                        9 => {
                            // (c*d / d) * x with a divisor of a few millionths: a constant quotient like any other
                            let d = [0.000008, 0.000002, 0.000004, 0.0000005][rng.gen_range(0..4)];
                            if (k * d) / d == k {
                                E::mul(E::div(E::Num(k * d), E::Num(d)), o)
                            } else {
                                E::mul(kk, o)
                            }
                        }
                        _ => E::mul(kk, o),
                    }
                }
                _ => E::Mul(r(a, rng), r(c, rng)),
            }
        }
        E::Num(_) | E::Var(_) => e.clone(),
        E::Abs(a) => E::Abs(r(a, rng)),
        E::Not(a) => E::Not(r(a, rng)),
        E::Neg(a) => E::Neg(r(a, rng)),
        E::Min(xs) => E::Min(rv(xs, rng)),
        E::Max(xs) => E::Max(rv(xs, rng)),
        E::And(xs) => E::And(rv(xs, rng)),
        E::Or(xs) => E::Or(rv(xs, rng)),
        E::Xor(a, c) => E::Xor(r(a, rng), r(c, rng)),
        E::Implies(a, c) => E::Implies(r(a, rng), r(c, rng)),
        E::Iff(a, c) => E::Iff(r(a, rng), r(c, rng)),
        E::Add(a, c) => E::Add(r(a, rng), r(c, rng)),
        E::Sub(a, c) => E::Sub(r(a, rng), r(c, rng)),
        E::Div(a, c) => E::Div(r(a, rng), r(c, rng)),
    }
}

const SPELLINGS: [&str; 10] = ["c*x", "x*c", "-(-c)*x", "(0-(-c))*x", "(c/2+c/2)*x", "x/(1/c)", "1*c*x", "-((-c)*x)", "-(x) for c=-1", "(cd/d)*x for d<1e-5"];

fn respell_model(m: &M, rng: &mut ChaCha8Rng, how: usize) -> M {
    let mut t = m.clone();
    t.obj = respell(&m.obj, rng, how);
    for c in t.cons.iter_mut() {
        c.kind = match &c.kind {
            CKind::Cmp(l, cmp, r) => CKind::Cmp(respell(l, rng, how), *cmp, respell(r, rng, how)),
            CKind::Assert(e) => CKind::Assert(respell(e, rng, how)),
        };
    }
    t
}

fn has_literal_product(m: &M) -> bool {
    let mut f = false;
    for e in m.all_exprs() {
        e.visit(&mut |x| {
            if let E::Mul(a, c) = x {
                if matches!(**a, E::Num(_)) || matches!(**c, E::Num(_)) {
                    f = true;
                }
            }
        });
    }
    f
}

fn outcome_class(c: &Compiled) -> String {
    match c {
        Compiled::Ok(_) => "ok".into(),
        Compiled::Rejected(e) => format!("rejected:{}", lin_err_kind(e)),
        Compiled::Panicked(_) => "panic".into(),
    }
}

/// Same projection onto the declared variables and same objective, on the C01 point sets.
pub fn same_meaning(m: &M, a: &rooc::LinearModel, b_: &rooc::LinearModel, rng: &mut ChaCha8Rng) -> Result<usize, String> {
    use crate::props::c01::fix_vector;
    let (Ok(xa), Ok(xb)) = (XLin::from_rooc(a), XLin::from_rooc(b_)) else { return Ok(0) };
    let pts = crate::points::point_set(m, Some(&xa), rng, 40);
    let eps = crate::props::c01::eps9();
    let mut decided = 0;
    for p in &pts {
        let fa = fix_vector(m, &xa, p);
        let fb = fix_vector(m, &xb, p);
        let ea = extend(&xa, &fa, &zero(), true, 3000);
        let eb = extend(&xb, &fb, &zero(), true, 3000);
        match (ea, eb) {
            (Ok(Ext::Yes { best: va, .. }), Ok(Ext::Yes { best: vb, .. })) => {
                decided += 1;
                if xa.sense != rooc::OptimizationType::Satisfy && (&va - &vb).abs() > pow10_neg(6) * qmax(&one(), &va.abs()) {
                    return Err(format!("at {} the best objective is {} for one spelling and {} for the other", show_vec(p), show(&va), show(&vb)));
                }
            }
            (Ok(Ext::No(_)), Ok(Ext::No(_))) | (Ok(Ext::Unbounded), Ok(Ext::Unbounded)) => decided += 1,
            (Ok(x), Ok(y)) => {
                let xe = extend(&xa, &fa, &eps, false, 3000);
                let ye = extend(&xb, &fb, &eps, false, 3000);
                let no = |e: &Ext| matches!(e, Ext::No(_));
                match (xe, ye) {
                    (Ok(xe), Ok(ye)) if no(&xe) == no(&y) || no(&ye) == no(&x) => {}
                    _ => return Err(format!("assignment {} is accepted under one spelling and rejected under the other", show_vec(p))),
                }
            }
            _ => {}
        }
    }
    Ok(decided)
}

/// (c) a coefficient computed in the where-section, written as a literal, and written inline must give
/// the same linear model: `let c = 1 - 0.25`, `let c = 0.75`, `(1 - 0.25) * x`.
fn where_constant_twins(rng: &mut ChaCha8Rng, out: &mut UnitOut, only: Option<usize>) {
    use rooc::RoocParser;
    let ints = [1.0, 2.0, 3.0, 5.0, 8.0];
    let decs = [0.25, 0.5, 1.5, 2.75, 0.125];
    for k in 0..6 {
        let case = 100 + k;
        // operands: integer literal or decimal literal, all dyadic so that the value is exact
        let pick = |rng: &mut ChaCha8Rng| -> (f64, String) {
            if rng.gen_bool(0.5) {
                let v = ints[rng.gen_range(0..ints.len())];
                (v, format!("{}", v as i64))
            } else {
                let v = decs[rng.gen_range(0..decs.len())];
                (v, format!("{v}"))
            }
        };
        let (a, ta) = pick(rng);
        let (b, tb) = pick(rng);
        let (d, td) = pick(rng);
        let dv = [0.25, 0.5, 2.0, 4.0][rng.gen_range(0..4)];
        // template with B standing for the right operand, so that it can be routed through a second constant
        let dv2 = [2.0, 4.0, 0.5][rng.gen_range(0..3)];
        // a run-time non-negative integer (a length) as an operand: n / 2 is a half, not a truncated quotient
        let n_items = [3usize, 5, 7, 6][rng.gen_range(0..4)];
        let mut prelude = String::new();
        let (value, template, shape): (f64, String, &str) = match rng.gen_range(0..12) {
            9 => {
                prelude = format!("    let AA = [{}]\n", vec!["7"; n_items].join(", "));
                (n_items as f64 / 2.0, "len(AA) / 2".to_string(), "len / 2")
            }
            10 => {
                prelude = format!("    let AA = [{}]\n", vec!["7"; n_items].join(", "));
                (n_items as f64 / 4.0 * b, "len(AA) / 4 * B".to_string(), "len / 4 * b")
            }
            11 => {
                prelude = format!("    let AA = [{}]\n", vec!["7"; n_items].join(", "));
                ((n_items as f64 - b) / 2.0, "(len(AA) - B) / 2".to_string(), "(len - b) / 2")
            }
            7 => (b / dv / dv2, format!("B / {dv} / {dv2}"), "a / d / e"),
            8 => (b / dv * d, format!("B / {dv} * {td}"), "a / d * e"),
            0 => (a - b, format!("{ta} - B"), "a - b"),
            1 => (a + b, format!("{ta} + B"), "a + b"),
            2 => (a * b, format!("{ta} * B"), "a * b"),
            3 => (b / dv, format!("B / {dv}"), "a / dec"),
            4 => ((a - b) * d, format!("({ta} - B) * {td}"), "(a - b) * d"),
            5 => (-a + b, format!("-{ta} + B"), "-a + b"),
            _ => (a - b - d, format!("{ta} - B - {td}"), "a - b - d"),
        };
        let expr = template.replace('B', &tb);
        let via_second = rng.gen_bool(0.3);
        if only.is_some_and(|o| o != case) {
            continue;
        }
        out.case = case;
        out.eval();
        if value == 0.0 {
            continue;
        }
        let lit = if value < 0.0 { format!("0 - {}", crate::text::num_text(value)) } else { crate::text::num_text(value) };
        let body = |coef: &str, wh: &str| format!("min {coef} * x + y\ns.t.\n    {coef} * x + 2 * y <= 12\n    x + y >= 1\n{wh}define\n    x, y as Real(0, 10)\n");
        let computed = if via_second {
            // the right operand goes through a constant of its own
            body("c", &format!("where\n{prelude}    let p = {tb}\n    let c = {}\n", template.replace('B', "p")))
        } else {
            body("c", &format!("where\n{prelude}    let c = {expr}\n"))
        };
        let literal = body("c", &format!("where\n{prelude}    let c = {lit}\n"));
        let inline = body(&format!("({expr})"), &if prelude.is_empty() { String::new() } else { format!("where\n{prelude}") });
        let compile = |t: &str| -> Result<rooc::LinearModel, String> {
            let r = std::panic::catch_unwind(|| RoocParser::new(t.to_string()).parse_and_transform(vec![], &indexmap::IndexMap::new()));
            match r {
                Ok(Ok(m)) => rooc::Linearizer::linearize(m).map_err(|e| format!("linearize: {e}")),
                Ok(Err(e)) => Err(format!("transform: {}", e.lines().next().unwrap_or(""))),
                Err(_) => Err("panic".into()),
            }
        };
        let (lc, ll, li) = (compile(&computed), compile(&literal), compile(&inline));
        let detail = json!({"computed": computed, "literal": literal, "inline": inline, "expression": expr, "value": value});
        match (&lc, &ll, &li) {
            (Ok(c), Ok(l), Ok(i)) => {
                let coef = |m: &rooc::LinearModel| {
                    let j = m.variables().iter().position(|v| v == "x").unwrap_or(0);
                    (m.objective()[j], m.constraints().first().map(|r| r.coefficients()[j]).unwrap_or(f64::NAN))
                };
                let (cc, cl, ci) = (coef(c), coef(l), coef(i));
                let close = |p: (f64, f64), q: (f64, f64)| (p.0 - q.0).abs() <= 1e-12 * q.0.abs().max(1.0) && (p.1 - q.1).abs() <= 1e-12 * q.1.abs().max(1.0);
                if close(cc, cl) && close(ci, cl) && close(cl, (value, value)) {
                    out.tag("where-constant-twins-agree");
                    out.tag(&format!("where-constant:{shape}"));
                } else {
                    out.violation(
                        &format!("where-constant-spelling-changes-coefficient({shape})"),
                        &format!("'{expr}' = {value}: coefficient of x is {:?} when computed in the where-section, {:?} as a literal, {:?} inline", cc, cl, ci),
                        detail,
                    );
                }
            }
            (a_, b_, c_) => {
                let cls = |r: &Result<rooc::LinearModel, String>| r.as_ref().err().cloned().unwrap_or_else(|| "ok".into());
                out.violation(
                    &format!("where-constant-spelling-changes-acceptance({shape})"),
                    &format!("computed: {}; literal: {}; inline: {}", cls(a_), cls(b_), cls(c_)),
                    detail,
                );
            }
        }
    }
}

impl Driver for C10 {
    fn id(&self) -> &'static str {
        "C10"
    }
    fn units(&self, tier: Tier) -> usize {
        // units 0..EXH are the exhaustive part, the rest random trees and spelling twins
        tier.pick(1000, 20000)
    }
    fn exhaustive(&self, _tier: Tier) -> bool {
        false
    }
    fn run_unit(&self, ctx: &Ctx, out: &mut UnitOut, _start: usize, only: Option<usize>) {
        let names = vec!["x".to_string(), "y".to_string()];
        let pts = assignments();
        const EXH_UNITS: usize = 100;
        if out.unit < EXH_UNITS {
            // exhaustive slice: every tree with <= 2 operators, split over the first units
            let mut all = trees_with(0);
            all.extend(trees_with(1));
            all.extend(trees_with(2));
            let total = all.len();
            let per = total.div_ceil(EXH_UNITS);
            let lo = out.unit * per;
            let hi = ((out.unit + 1) * per).min(total);
            for (k, e) in all[lo.min(total)..hi].iter().enumerate() {
                if only.is_some_and(|o| o != k) {
                    continue;
                }
                out.case = k;
                match check_rewrites(e, &names, &pts) {
                    Ok(n) => {
                        out.evals(n);
                        out.tag("rewrite-checked:exhaustive");
                        if n > 0 {
                            out.nontrivial(hash_str(&exp_json(e)));
                        }
                    }
                    Err((sig, what, detail)) => out.violation(&sig, &what, detail),
                }
            }
            if out.unit == 0 {
                out.tag_n("exhaustive-trees-total", total as u64);
                out.sample(json!({"expression": all[total / 2].to_string(), "simplified": all[total / 2].simplify().to_string()}));
            }
            return;
        }
        let mut rng = unit_rng(ctx, "C10", out.unit);
        where_constant_twins(&mut rng, out, only);
        for case in 0..40 {
            if case < 25 {
                // random larger trees
                let e = if case >= 21 { absorber_tree(&mut rng) } else { random_tree(&mut rng, 4) };
                if only.is_some_and(|o| o != case) {
                    continue;
                }
                out.case = case;
                match check_rewrites(&e, &names, &pts) {
                    Ok(n) => {
                        out.evals(n);
                        out.tag("rewrite-checked:random");
                        out.nontrivial(hash_str(&exp_json(&e)));
                    }
                    Err((sig, what, detail)) => out.violation(&sig, &what, detail),
                }
            } else {
                // spelling twins
                let stratum = STRATA[rng.gen_range(0..STRATA.len())];
                let mut m = gen_model(&mut rng, stratum);
                if rng.gen_bool(0.2) {
                    // a product over a sum that carries a constant: c * (x - k) rel r
                    let nums: Vec<usize> = (0..m.n()).filter(|i| !matches!(m.types[*i], VT::Bool)).collect();
                    if let Some(&i) = nums.first() {
                        let c = [-1.0, -2.0, 2.0][rng.gen_range(0..3)];
                        let k = [3.0, 1.0, 0.5][rng.gen_range(0..3)];
                        let cmp = if rng.gen_bool(0.5) { Cmp::Ge } else { Cmp::Le };
                        m.cons.push(Con { name: None, kind: CKind::Cmp(E::mul(E::Num(c), E::sub(E::Var(i), E::Num(k))), cmp, E::Num(-2.0)) });
                    }
                }
                let how_a = rng.gen_range(0..SPELLINGS.len());
                let how_b = rng.gen_range(0..SPELLINGS.len());
                let mut prng = unit_rng(ctx, "C10p", out.unit * 100 + case);
                if only.is_some_and(|o| o != case) {
                    continue;
                }
                out.case = case;
                if !has_literal_product(&m) || how_a == how_b {
                    continue;
                }
                let ma = respell_model(&m, &mut rng, how_a);
                let mb = respell_model(&m, &mut rng, how_b);
                let (ca, cb) = (compile_m(&ma), compile_m(&mb));
                out.eval();
                let (ka, kb) = (outcome_class(&ca), outcome_class(&cb));
                let pair = {
                    let mut v = [SPELLINGS[how_a], SPELLINGS[how_b]];
                    v.sort();
                    format!("{} vs {}", v[0], v[1])
                };
                let detail = json!({"spelling_a": SPELLINGS[how_a], "model_a": ma.show(), "spelling_b": SPELLINGS[how_b], "model_b": mb.show()});
                if ka != kb {
                    out.violation(
                        &format!("spelling-changes-acceptance({ka} vs {kb})"),
                        &format!("the same model is {ka} when constants are written {} and {kb} when written {}", SPELLINGS[how_a], SPELLINGS[how_b]),
                        detail,
                    );
                    continue;
                }
                out.tag(&format!("twin:{ka}"));
                if let (Compiled::Ok(la), Compiled::Ok(lb)) = (&ca, &cb) {
                    match same_meaning(&m, la, lb, &mut prng) {
                        Ok(n) if n >= 3 => {
                            out.tag("twin:same-meaning");
                            out.tag(&format!("pair:{pair}"));
                            out.nontrivial(hash_str(&format!("{:?}{how_a}{how_b}", m)));
                            if out.report.samples.len() < 2 && out.unit < EXH_UNITS + 4 {
                                out.sample(json!({"a": ma.show(), "b": mb.show()}));
                            }
                        }
                        Ok(_) => out.inconclusive("too few decidable assignments"),
                        Err(why) => out.violation("spelling-changes-meaning", &why, detail),
                    }
                }
            }
        }
    }
    fn rule(&self) -> String {
        "(a) Exp::simplify, Exp::flatten and flatten().simplify() on every expression tree with <= 2 operators over leaves {x, y, 0, 1, -0.0, 2, 0.5, 3} and operators neg, abs, not (both forms), + - * /, min, max, and/or (n-ary and BinOp forms), xor, implies, iff (units 0..99 sweep this finite set completely at every run), plus random trees of depth <= 4 with 1..3-ary and/or/min/max, and absorbing operands (0 * e, e * 0, false and e, true or e) whose other operand hides a division by zero or by a variable under a division by a constant, a block, a sum or a product; each is evaluated exactly at the 16 assignments x,y in {0,1,2,-3/2}: defined values must be preserved, a defined expression must stay defined, a division by zero must not disappear, simplify must be idempotent. (b) G-model models whose literal products c*e are re-spelled as c*x, x*c, -(-c)*x, (0-(-c))*x, (c/2+c/2)*x, x/(1/c), 1*c*x, -((-c)*x), -(x) for c = -1, (c*d/d)*x with d of a few millionths (one model in five gets an extra row c*(x - k) rel r with c in {-1, -2, 2} so that products over sums with a constant occur): both twins are compiled; they must be accepted or rejected alike (same error kind) and, when accepted, accept the same assignments with the same best objective on the C01 point sets. (c) a coefficient computed in the where-section from integer and decimal literals (a - b, a + b, a * b, a / d, (a - b) * d, -a + b, a - b - d, a / d / e, a / d * e, len(A) / 2, len(A) / 4 * b, (len(A) - b) / 2, optionally through a second constant), the same value written as a literal, and the same expression written inline must give the same coefficients (1e-12). non-trivial = expression with at least one decided assignment / twin pair with >= 3 decided assignments".into()
    }
    fn thresholds(&self, tier: Tier) -> Thresholds {
        let s = tier.pick(1, 10);
        Thresholds {
            min_tags: vec![
                ("rewrite-checked:exhaustive", 400000),
                ("rewrite-checked:random", 5000 * s),
                ("twin:same-meaning", 600 * s),
                ("twin:rejected:MissingFiniteBounds", 20 * s),
                ("where-constant-twins-agree", 1000 * s),
            ],
            min_nontrivial: 100000,
        }
    }
}

