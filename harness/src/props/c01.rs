//! C01 (feasible set) and C02 (objective values / optima) of the linearization.
use crate::ast::*;
use crate::compile::*;
use crate::gen_model::*;
use crate::lin::*;
use crate::lp::*;
use crate::points::*;
use crate::rat::*;
use crate::runner::*;
use num_traits::{Signed, Zero};
use rand::Rng;
use serde_json::{Value, json};

pub struct C01;
pub struct C02;

pub fn eps9() -> Q {
    pow10_neg(9)
}

pub fn fix_vector(m: &M, xl: &XLin, p: &[Q]) -> Vec<Option<Q>> {
    let mut fixed = vec![None; xl.vars.len()];
    for (i, name) in m.names.iter().enumerate() {
        if let Some(j) = xl.index_of(name) {
            fixed[j] = Some(p[i].clone());
        }
    }
    fixed
}

pub fn point_json(m: &M, p: &[Q]) -> Value {
    let mut o = serde_json::Map::new();
    for (n, v) in m.names.iter().zip(p) {
        o.insert(n.clone(), json!(show(v)));
    }
    Value::Object(o)
}

/// Diagnoses why the source rejects p: a declared-domain violation or the first violated constraint.
fn source_rejection(m: &M, p: &[Q]) -> String {
    for (i, t) in m.types.iter().enumerate() {
        if !t.contains(&p[i]) {
            return format!("domain({})", match t {
                VT::Bool => "Boolean",
                VT::Int(..) => "IntegerRange",
                VT::Real(..) => "Real",
                VT::NonNeg(..) => "NonNegativeReal",
            });
        }
    }
    "constraint".to_string()
}

fn ops_of(m: &M) -> String {
    let mut s = std::collections::BTreeSet::new();
    for e in m.all_exprs() {
        e.visit(&mut |x| {
            let n = match x {
                E::Abs(_) => "abs",
                E::Min(_) => "min",
                E::Max(_) => "max",
                E::And(_) | E::Or(_) | E::Not(_) | E::Xor(..) | E::Implies(..) | E::Iff(..) => "logic",
                _ => "",
            };
            if !n.is_empty() {
                s.insert(n);
            }
        });
    }
    s.into_iter().collect::<Vec<_>>().join("+")
}

/// true when a Boolean variable's derived range (hook H1) is a strict subset of {0,1}:
/// the precondition of the known "unenforced Boolean bound" defect.
pub fn boolean_with_tightened_range(m: &M) -> Option<String> {
    let model = std::panic::catch_unwind(std::panic::AssertUnwindSafe(|| m.to_model())).ok()?;
    let db = rooc::verif_bounds::derived_bounds(&model, None);
    let vars = db.variables();
    for (n, t) in m.names.iter().zip(&m.types) {
        if *t == VT::Bool {
            if let Some((lo, hi)) = vars.get(n) {
                if *lo > 1e-9 || *hi < 1.0 - 1e-9 {
                    return Some(n.clone());
                }
            }
        }
    }
    None
}

fn model_detail(m: &M, lm: &rooc::LinearModel) -> Value {
    json!({"source": m.show(), "linear_model": lm.to_string()})
}

pub struct Prepared {
    pub m: M,
    pub lm: rooc::LinearModel,
    pub xl: XLin,
}

/// Generates and compiles; records outcome tags. None = not usable for this case.
pub fn prepare(out: &mut UnitOut, m: M) -> Option<Prepared> {
    match compile_m(&m) {
        Compiled::Ok(lm) => {
            out.tag("compiled");
            for t in lowering_tags(Some(&m), &lm) {
                out.tag(&format!("lowering:{t}"));
            }
            match XLin::from_rooc(&lm) {
                Ok(xl) => Some(Prepared { m, lm, xl }),
                Err(_) => {
                    out.inconclusive("linear model with non-finite numbers (reported under C08)");
                    None
                }
            }
        }
        Compiled::Rejected(e) => {
            out.tag(&format!("rejected:{}", lin_err_kind(&e)));
            None
        }
        Compiled::Panicked(_) => {
            out.inconclusive("panic while compiling (reported under C18)");
            None
        }
    }
}

fn stratum_for(rng: &mut rand_chacha::ChaCha8Rng) -> Stratum {
    STRATA[rng.gen_range(0..STRATA.len())]
}

impl Driver for C01 {
    fn id(&self) -> &'static str {
        "C01"
    }
    fn units(&self, tier: Tier) -> usize {
        tier.pick(1200, 12000)
    }
    fn run_unit(&self, ctx: &Ctx, out: &mut UnitOut, _start: usize, only: Option<usize>) {
        let mut rng = unit_rng(ctx, "C01", out.unit);
        let eps = eps9();
        for case in 0..25 {
            let stratum = stratum_for(&mut rng);
            let mut m = gen_model(&mut rng, stratum);
            if rng.gen_bool(0.12) {
                // bounds that come out an ulp beside an integer or beside a declared bound
                let _ = crate::props::c07::add_inexact_row(&mut m, &mut rng);
            }
            let mut prng = unit_rng(ctx, "C01p", out.unit * 1000 + case);
            if let Some(o) = only {
                if o != case {
                    continue;
                }
            }
            out.case = case;
            let Some(pr) = prepare(out, m) else { continue };
            let (m, lm, xl) = (&pr.m, &pr.lm, &pr.xl);
            let pts = point_set(m, Some(xl), &mut prng, 120);
            let mut seen_feasible = false;
            let mut seen_infeasible = false;
            let mut reported = false;
            for p in &pts {
                out.eval();
                let fixed = fix_vector(m, xl, p);
                match m.feasible(p, &zero()) {
                    Feas::Undefined => {
                        out.inconclusive("source undefined at the point");
                    }
                    Feas::Yes => {
                        seen_feasible = true;
                        match extend(xl, &fixed, &eps, false, 4000) {
                            Ok(Ext::No(why)) => {
                                if !reported {
                                    reported = true;
                                    let sig = format!("cut-off({})", ops_of(m));
                                    out.violation(
                                        &sig,
                                        &format!("a source-feasible assignment has no extension in the linear model: {why}"),
                                        json!({"model": model_detail(m, lm), "point": point_json(m, p), "source_feasible": true, "extendable": false, "why": why}),
                                    );
                                }
                            }
                            Ok(_) => out.tag("agree:feasible"),
                            Err(e) => out.inconclusive(&format!("oracle: {e}")),
                        }
                    }
                    Feas::No => {
                        if m.feasible(p, &eps) != Feas::No {
                            out.inconclusive("point within tolerance of the source boundary");
                            continue;
                        }
                        seen_infeasible = true;
                        match extend(xl, &fixed, &zero(), false, 4000) {
                            Ok(Ext::Yes { full, .. }) => {
                                if !reported {
                                    reported = true;
                                    let why = source_rejection(m, p);
                                    let sig = match boolean_with_tightened_range(m) {
                                        Some(_) if why == "constraint" => {
                                            "let-in(unenforced-derived-bound:Boolean)".to_string()
                                        }
                                        _ => format!("let-in({why};{})", ops_of(m)),
                                    };
                                    out.violation(
                                        &sig,
                                        "an assignment rejected by the source model extends to a point of the linear model",
                                        json!({"model": model_detail(m, lm), "point": point_json(m, p), "source_feasible": false,
                                               "extendable": true, "extension": xl.vars.iter().zip(&full).map(|(v, x)| format!("{}={}", v.name, show(x))).collect::<Vec<_>>()}),
                                    );
                                }
                            }
                            Ok(Ext::Unbounded) => {}
                            Ok(Ext::No(_)) => out.tag("agree:infeasible"),
                            Err(e) => out.inconclusive(&format!("oracle: {e}")),
                        }
                    }
                }
            }
            if (m.has_piecewise() || m.has_logic()) && seen_feasible && seen_infeasible {
                out.nontrivial(hash_str(&format!("{:?}", m)));
            }
            if m.has_piecewise() {
                out.tag("model:piecewise");
            }
            if m.has_logic() {
                out.tag("model:logic");
            }
            if out.report.samples.is_empty() && out.unit < 16 {
                out.sample(json!({"model": model_detail(m, lm), "points": pts.len(), "first_point": pts.first().map(|p| point_json(m, p))}));
            }
        }
    }
    fn rule(&self) -> String {
        "random source models from six strata (mixed, affine, piecewise, logic, derived-bounds, tightened-discrete; <=4 variables, <=4+4 constraints, expression depth <=3) built through ModelBuilder and compiled by Linearizer::linearize; each compiled model is confronted with ~120 assignments of the declared variables (discrete grids incl. out-of-domain values, bound endpoints +-2^-10 and +-1/7, +-1e7 in unbounded directions, random rationals, bisection roots of every comparison along every continuous coordinate); source feasibility by the exact evaluator, extendability by the certified exact MILP over the auxiliaries; distinct = structural hash; non-trivial = contains abs/min/max or logic AND both a feasible and an infeasible assignment were observed".into()
    }
    fn thresholds(&self, tier: Tier) -> Thresholds {
        let s = tier.pick(6, 60);
        Thresholds {
            min_tags: vec![
                ("compiled", 1500 * s),
                ("agree:feasible", 10000 * s),
                ("agree:infeasible", 10000 * s),
                ("lowering:abs:exact-bigM", 50 * s),
                ("lowering:abs:one-sided", 50 * s),
                ("lowering:abs:sign-known-or-folded", 50 * s),
                ("lowering:extreme:selector-bigM", 50 * s),
                ("lowering:extreme:one-sided", 50 * s),
                ("lowering:extreme:pruned-or-folded", 50 * s),
                ("lowering:logic:reified", 50 * s),
                ("lowering:logic:witness", 20 * s),
                ("lowering:logic:affine-assertion", 50 * s),
            ],
            min_nontrivial: 300 * s,
        }
    }
    fn assumptions(&self) -> Vec<String> {
        vec![
            "continuous assignments are sampled (densely at breakpoints), not swept".into(),
            "comparisons carry a 1e-9 relative tolerance on the conclusion side, because the compiler rounds coefficients such as 1/3".into(),
            "models are built through ModelBuilder, which marks every declared variable as used".into(),
        ]
    }
}

// ---------------------------------------------------------------------------
// C02
// ---------------------------------------------------------------------------

fn affine_of(e: &E, n: usize) -> Option<(Vec<Q>, Q)> {
    match e {
        E::Num(f) => Some((vec![zero(); n], q(*f)?)),
        E::Var(i) => {
            let mut v = vec![zero(); n];
            v[*i] = one();
            Some((v, zero()))
        }
        E::Add(a, c) | E::Sub(a, c) => {
            let (mut va, ka) = affine_of(a, n)?;
            let (vc, kc) = affine_of(c, n)?;
            let sub = matches!(e, E::Sub(..));
            for (x, y) in va.iter_mut().zip(vc) {
                if sub {
                    *x -= y;
                } else {
                    *x += y;
                }
            }
            Some((va, if sub { ka - kc } else { ka + kc }))
        }
        E::Neg(a) => {
            let (va, ka) = affine_of(a, n)?;
            Some((va.into_iter().map(|x| -x).collect(), -ka))
        }
        E::Mul(a, c) => {
            let (va, ka) = affine_of(a, n)?;
            let (vc, kc) = affine_of(c, n)?;
            if va.iter().all(|x| x.is_zero()) {
                Some((vc.into_iter().map(|x| x * &ka).collect(), kc * ka))
            } else if vc.iter().all(|x| x.is_zero()) {
                Some((va.into_iter().map(|x| x * &kc).collect(), ka * kc))
            } else {
                None
            }
        }
        E::Div(a, c) => {
            let (va, ka) = affine_of(a, n)?;
            let (vc, kc) = affine_of(c, n)?;
            if !vc.iter().all(|x| x.is_zero()) || kc.is_zero() {
                return None;
            }
            Some((va.into_iter().map(|x| x / &kc).collect(), ka / kc))
        }
        _ => None,
    }
}

/// The source model as an exact MILP, when it is affine.
pub fn source_as_lp(m: &M) -> Option<Lp> {
    let n = m.n();
    let mut rows = vec![];
    for c in &m.cons {
        match &c.kind {
            CKind::Cmp(l, cmp, r) => {
                let (vl, kl) = affine_of(l, n)?;
                let (vr, kr) = affine_of(r, n)?;
                let a: Vec<Q> = vl.into_iter().zip(vr).map(|(x, y)| x - y).collect();
                rows.push(LpRow {
                    a,
                    rel: match cmp {
                        Cmp::Le => Rel::Le,
                        Cmp::Ge => Rel::Ge,
                        Cmp::Eq => Rel::Eq,
                    },
                    b: kr - kl,
                });
            }
            CKind::Assert(_) => return None,
        }
    }
    let (c, c0) = if m.sense == Sense::Satisfy {
        (vec![zero(); n], zero())
    } else {
        affine_of(&m.obj, n)?
    };
    Some(Lp {
        vars: m
            .types
            .iter()
            .map(|t| {
                let (lo, hi) = t.bounds();
                LpVar { lo: q(lo), hi: q(hi), int: t.is_discrete() }
            })
            .collect(),
        rows,
        c,
        c0,
        maximize: m.sense == Sense::Max,
    })
}

fn discrete_grid(m: &M, cap: usize) -> Option<Vec<Vec<Q>>> {
    let mut axes: Vec<Vec<Q>> = vec![];
    let mut size = 1usize;
    for t in &m.types {
        let ax: Vec<Q> = match t {
            VT::Bool => vec![qi(0), qi(1)],
            VT::Int(a, b_) => (*a..=*b_).map(|v| qi(v as i64)).collect(),
            _ => return None,
        };
        size = size.saturating_mul(ax.len());
        if size > cap {
            return None;
        }
        axes.push(ax);
    }
    let mut pts = vec![vec![]];
    for ax in axes {
        let mut next = vec![];
        for p in &pts {
            for v in &ax {
                let mut p2: Vec<Q> = p.clone();
                p2.push(v.clone());
                next.push(p2);
            }
        }
        pts = next;
    }
    Some(pts)
}

fn close(a: &Q, b_: &Q, scale: &Q) -> bool {
    (a - b_).abs() <= pow10_neg(6) * qmax(&one(), scale)
}

impl Driver for C02 {
    fn id(&self) -> &'static str {
        "C02"
    }
    fn units(&self, tier: Tier) -> usize {
        tier.pick(2400, 16000)
    }
    fn run_unit(&self, ctx: &Ctx, out: &mut UnitOut, _start: usize, only: Option<usize>) {
        let mut rng = unit_rng(ctx, "C02", out.unit);
        let eps = eps9();
        for case in 0..25 {
            let stratum = stratum_for(&mut rng);
            let mut m = gen_model(&mut rng, stratum);
            if m.sense == Sense::Satisfy && rng.gen_bool(0.7) {
                // C02 is about objectives: give most satisfy models one
                m.sense = if rng.gen_bool(0.5) { Sense::Min } else { Sense::Max };
                let mut g = G { rng: &mut rng, types: m.types.clone(), stratum, budget: 12 };
                m.obj = g.arith(2);
            }
            if rng.gen_bool(0.05) {
                let _ = crate::props::c07::add_inexact_row(&mut m, &mut rng);
            }
            let mut prng = unit_rng(ctx, "C02p", out.unit * 1000 + case);
            if let Some(o) = only {
                if o != case {
                    continue;
                }
            }
            out.case = case;
            let Some(pr) = prepare(out, m) else { continue };
            let (m, lm, xl) = (&pr.m, &pr.lm, &pr.xl);
            let mut reported = false;
            let mut compared = 0;
            // (1) per feasible assignment: best linear objective over the auxiliaries == source objective
            if m.sense != Sense::Satisfy {
                let pts = point_set(m, Some(xl), &mut prng, 60);
                for p in &pts {
                    if m.feasible(p, &zero()) != Feas::Yes {
                        continue;
                    }
                    let Ok(want) = m.obj.eval(p) else { continue };
                    out.eval();
                    let fixed = fix_vector(m, xl, p);
                    match extend(xl, &fixed, &eps, true, 4000) {
                        Ok(Ext::Yes { best, full }) => {
                            let mut scale = want.abs();
                            for (c, x) in xl.c.iter().zip(&full) {
                                scale = qmax(&scale, &(c * x).abs());
                            }
                            // the rows were relaxed by 1e-9 of their largest term: at a far-away point
                            // (+-1e7 in an unbounded direction) that is an absolute slack of 1e-2
                            // (each row of a chain $min_0 <= $min_1 - v, $min_1 <= v adds its own slack)
                            let chain = qi(xl.rows.len().max(1) as i64);
                            for x in p.iter() {
                                scale = qmax(&scale, &(x.abs() * pow10_neg(3) * &chain));
                            }
                            if close(&best, &want, &scale) {
                                out.tag("objective-agrees");
                                compared += 1;
                            } else if !reported {
                                reported = true;
                                let dir = if best > want { "higher" } else { "lower" };
                                out.violation(
                                    &format!("objective-mismatch({:?},{dir};{})", m.sense, ops_of(m)),
                                    &format!("best linear objective over the auxiliary extensions is {} but the source objective at the assignment is {}", show(&best), show(&want)),
                                    json!({"model": model_detail(m, lm), "point": point_json(m, p), "source_objective": show(&want), "best_linear_objective": show(&best)}),
                                );
                            }
                        }
                        Ok(Ext::Unbounded) => {
                            if !reported {
                                reported = true;
                                out.violation(
                                    &format!("objective-unbounded-over-auxiliaries({:?};{})", m.sense, ops_of(m)),
                                    "with the declared variables fixed at a source-feasible assignment the linear objective is unbounded over the auxiliaries",
                                    json!({"model": model_detail(m, lm), "point": point_json(m, p), "source_objective": show(&want)}),
                                );
                            }
                        }
                        Ok(Ext::No(_)) => out.inconclusive("feasible assignment not extendable (C01's concern)"),
                        Err(e) => out.inconclusive(&format!("oracle: {e}")),
                    }
                }
            }
            // (2) whole-model optimum / status where the source optimum is independently computable
            let status_of = |r: Result<(LpAnswer, MilpStats), OracleFail>| -> Option<(&'static str, Option<Q>)> {
                match r {
                    Ok((LpAnswer::Optimal { value, .. }, _)) => Some(("optimal", Some(value))),
                    Ok((LpAnswer::Infeasible, _)) => Some(("infeasible", None)),
                    Ok((LpAnswer::Unbounded { .. }, _)) => Some(("unbounded", None)),
                    Err(_) => None,
                }
            };
            let grid_status = |tol: &Q| -> Option<(&'static str, Option<Q>)> {
                let grid = discrete_grid(m, 1024)?;
                let mut best: Option<Q> = None;
                for p in &grid {
                    match m.feasible(p, tol) {
                        Feas::Yes => {
                            if let Ok(v) = m.obj.eval(p) {
                                let better = match (&best, m.sense) {
                                    (None, _) => true,
                                    (Some(bv), Sense::Max) => v > *bv,
                                    (Some(bv), _) => v < *bv,
                                };
                                if better {
                                    best = Some(v);
                                }
                            }
                        }
                        Feas::Undefined => return None,
                        Feas::No => {}
                    }
                }
                Some(match best {
                    Some(v) => ("optimal", Some(if m.sense == Sense::Satisfy { zero() } else { v })),
                    None => ("infeasible", None),
                })
            };
            let slp = source_as_lp(m);
            let src = match &slp {
                Some(slp) => status_of(solve_milp(slp, 20000)),
                None => grid_status(&zero()),
            };
            if let Some((kind, val)) = src {
                out.eval();
                let agrees = |other: &Option<(&'static str, Option<Q>)>, kind: &str, val: &Option<Q>| -> bool {
                    match other {
                        Some((k, v)) => {
                            *k == kind
                                && match (val, v) {
                                    (Some(a), Some(b_)) => m.sense == Sense::Satisfy || close(a, b_, &a.abs()),
                                    _ => true,
                                }
                        }
                        None => false,
                    }
                };
                let lin_lp = xl.to_lp();
                let t_exact = status_of(solve_milp(&lin_lp, 20000));
                if t_exact.is_none() {
                    out.inconclusive("oracle could not decide the linear model");
                } else if agrees(&t_exact, kind, &val) {
                    out.tag(&format!("whole-model-agrees:{kind}"));
                    compared += 1;
                } else {
                    let t_eps = status_of(solve_milp(&relax(&lin_lp, &eps), 20000));
                    let s_eps = match &slp {
                        Some(slp) => status_of(solve_milp(&relax(slp, &eps), 20000)),
                        None => grid_status(&eps),
                    };
                    let tolerant = agrees(&t_eps, kind, &val)
                        || s_eps.as_ref().is_some_and(|(k, v)| agrees(&t_exact, k, v) || agrees(&t_eps, k, v));
                    if tolerant || t_eps.is_none() || s_eps.is_none() {
                        out.inconclusive("whole-model status differs only within the 1e-9 tolerance band");
                    } else if !reported {
                        reported = true;
                        let (lkind, lval) = t_exact.clone().unwrap();
                        out.violation(
                            &format!("optimum-or-status-mismatch({kind}->{lkind};{})", ops_of(m)),
                            &format!("source model is {kind} {} but the linear model is {lkind} {}", val.as_ref().map(show).unwrap_or_default(), lval.as_ref().map(show).unwrap_or_default()),
                            json!({"model": model_detail(m, lm), "source": {"status": kind, "value": val.as_ref().map(show)}, "linear": {"status": lkind, "value": lval.as_ref().map(show)}}),
                        );
                    }
                }
            }
            if compared > 0 && (m.has_piecewise() || m.has_logic()) {
                out.nontrivial(hash_str(&format!("{:?}", m)));
            }
            if out.report.samples.is_empty() && out.unit < 16 {
                out.sample(json!({"model": model_detail(m, lm)}));
            }
        }
    }
    fn rule(&self) -> String {
        "same generator as C01, objectives min/max over nested abs/min/max under mixed-sign scales, subtraction, division by negative constants and logic values; (1) at every exactly source-feasible sampled assignment the optimum of the linear objective over all auxiliary extensions (certified exact MILP, model's own direction) must equal the source objective from the exact evaluator within 1e-6 relative, and must not be unbounded; (2) for affine models (source is itself an exact MILP) and all-discrete models (grid enumeration <=1024) the optimal value and the optimal/infeasible/unbounded status of source and linear model must coincide; non-trivial = at least one comparison made on a model containing abs/min/max or logic".into()
    }
    fn thresholds(&self, tier: Tier) -> Thresholds {
        let s = tier.pick(6, 60);
        Thresholds {
            min_tags: vec![
                ("objective-agrees", 10000 * s),
                ("whole-model-agrees:optimal", 200 * s),
                ("whole-model-agrees:infeasible", 20 * s),
                ("whole-model-agrees:unbounded", 5 * s),
                ("lowering:abs:exact-bigM", 50 * s),
                ("lowering:abs:one-sided", 50 * s),
                ("lowering:extreme:selector-bigM", 50 * s),
                ("lowering:extreme:one-sided", 50 * s),
                ("lowering:logic:reified", 50 * s),
            ],
            min_nontrivial: 300 * s,
        }
    }
    fn assumptions(&self) -> Vec<String> {
        vec![
            "continuous feasible assignments are sampled".into(),
            "the set of optimal assignments is compared through value equality at every sampled feasible assignment (an assignment is optimal in both or in neither when its two objective values agree and the optima agree)".into(),
        ]
    }
}
