//! C19 - type checking is sound: an accepted program never fails the transform with a type-class error.
use crate::gen_data::*;
use crate::runner::*;
use indexmap::IndexMap;
use rand::Rng;
use rand_chacha::ChaCha8Rng;
use rooc::RoocParser;
use rooc::model_transformer::TransformError;
use serde_json::json;

pub struct C19;

const KEYWORDS: [&str; 30] = [
    "min", "max", "solve", "s", "t", "where", "define", "let", "for", "in", "as", "Real", "Boolean", "IntegerRange",
    "NonNegativeReal", "Graph", "sum", "prod", "avg", "all", "any", "xor", "abs", "not", "implies", "and", "or", "iff",
    "true", "false",
];

/// standard constants appended to every program so that replacements can refer to them
const EXTRA_CONSTS: &str = "    let SA = [1, 2, 3]\n    let SS = \"txt\"\n    let SB = true\n    let SN = [[1, 2], [3]]\n    let SG = Graph {\n        P -> [Q: 2],\n        Q\n    }\n    let SF = 2.5\n    let SK = 1\n";

const REPLACEMENTS: [(&str, &str); 53] = [
    // (SM and SE exist in the mixed stratum only; elsewhere these are undeclared names)
    ("SM[1][1]", "element-of-a-later-mixed-row"),
    ("SM[1][0]", "number-of-a-later-mixed-row"),
    ("SM[0][1]", "element-of-the-homogeneous-first-row-of-a-mixed-table"),
    ("len(SE[1])", "length-of-an-empty-row"),
    // blocks: values of the model, not of the compile-time data
    ("max { 2, 3 }", "block-of-constants"),
    ("abs { 2 }", "abs-block-of-constant"),
    ("sum(jj in 0..2) { 7 }", "scoped-block-of-constants"),
    ("min { len(SA), 3 }", "block-over-len"),
    ("avg { 1, 2 }", "avg-block"),
    ("all { true, SB }", "logic-block-of-constants"),
    ("\"str\"", "string"),
    ("SS", "string"),
    ("true", "boolean"),
    ("SB", "boolean"),
    ("[1, 2]", "array"),
    ("SA", "array"),
    ("SN", "nested-array"),
    ("SG", "graph"),
    ("nodes(SG)", "node-list"),
    ("edges(SG)", "edge-list"),
    ("SA[0]", "array-element"),
    ("SN[0]", "row"),
    ("SN[1][0]", "matrix-element"),
    ("1.5", "decimal"),
    ("SF", "decimal"),
    ("99", "large-integer"),
    ("0", "zero"),
    ("(0 - 1)", "negative"),
    ("len(SA)", "len-call"),
    ("len(3)", "len-of-number"),
    ("len()", "len-no-args"),
    ("len(SA, SA)", "len-two-args"),
    ("enumerate(3)", "enumerate-of-number"),
    ("enumerate(SA)", "enumerate-call"),
    ("zip(SA)", "zip-one-arg"),
    ("zip(SA, SN)", "zip-call"),
    ("foo(1)", "unknown-function"),
    ("zz", "undeclared-identifier"),
    ("zz_1", "undeclared-compound"),
    ("neigh_edges_of(SS, SG)", "neigh-edges-of-missing-node"),
    ("union(1, 2)", "set-function-of-numbers"),
    ("difference(3, SA)", "set-function-of-number-and-array"),
    ("intersection(SA, 2)", "set-function-of-array-and-number"),
    ("union(SA, SA)", "set-function-call"),
    ("union(SA, SS)", "set-function-of-array-and-string"),
    ("range(0, 2, 1)", "range-with-numeric-flag"),
    ("range(0, 2, true)", "range-call"),
    ("range(SA, 2, true)", "range-from-array"),
    ("(-true)", "negated-boolean"),
    ("(-SB or true)", "negated-boolean-in-logic"),
    ("range(0, 2, -true)", "range-with-negated-boolean-flag"),
    ("esc_SK", "compound-name-whose-only-namesake-is-an-escaped-literal"),
    ("\\esc_SK", "escaped-literal-variable"),
];

/// (program, label): destructuring iterations; the ill-typed ones use a tuple component as a value of
/// another kind and must be rejected by the type checker, the well-typed ones must pass both stages.
const DESTRUCTURING: [(&str, &str); 20] = [
    // declarations without an iteration whose compound name has an index that is not declared anywhere else
    ("min x\ns.t.\n    x >= 1\nwhere\n    let G = Graph {\n        P -> [Q: 2],\n        Q\n    }\ndefine\n    x as Real(0, 5)\n    y_G as Boolean\n", "declared-name-indexed-by-graph-constant"),
    ("min x\ns.t.\n    x >= 1\nwhere\n    let M = [[1, 2], [3, 4]]\ndefine\n    x as Real(0, 5)\n    y_M as Boolean\n", "declared-name-indexed-by-matrix-constant"),
    ("min x\ns.t.\n    x >= 1\ndefine\n    x as Real(0, 5)\n    y_{len(3)} as Boolean\n", "declared-name-indexed-by-ill-typed-call"),
    ("min x\ns.t.\n    x >= 1\nwhere\n    let A = [4, 5]\ndefine\n    x as Real(0, 5)\n    y_{enumerate(A)} as Boolean\n", "declared-name-indexed-by-tuple-list"),
    ("min x\ns.t.\n    x >= 1\nwhere\n    let k = 2\ndefine\n    x as Real(0, 5)\n    y_k as Boolean\n", "declared-name-indexed-by-number-constant(well-typed)"),
    ("min x\ns.t.\n    x >= 1\nwhere\n    let A = [4, 5]\ndefine\n    x as Real(0, 5)\n    y_{len(A)} as Boolean\n    z_{\"a\"} as Boolean\n", "declared-name-indexed-by-call-and-string(well-typed)"),
    // constraint names with an index: the index is part of a name, so it has to be a number, a string or a node
    ("min x\ns.t.\n    cap_e: x >= 1 for e in edges(G)\nwhere\n    let G = Graph {\n        P -> [Q: 2],\n        Q\n    }\ndefine\n    x as Real(0, 5)\n", "constraint-name-indexed-by-edge"),
    ("min x\ns.t.\n    cap_t: x >= 1 for t in enumerate(A)\nwhere\n    let A = [4, 5]\ndefine\n    x as Real(0, 5)\n", "constraint-name-indexed-by-tuple"),
    ("min x\ns.t.\n    cap_row: x >= 1 for row in M\nwhere\n    let M = [[1, 2], [3, 4]]\ndefine\n    x as Real(0, 5)\n", "constraint-name-indexed-by-array-row"),
    ("min x\ns.t.\n    cap_i: x >= i for i in 0..3\ndefine\n    x as Real(0, 5)\n", "constraint-name-indexed-by-number(well-typed)"),
    ("min x\ns.t.\n    cap_n: x >= 1 for n in nodes(G)\nwhere\n    let G = Graph {\n        P -> [Q: 2],\n        Q\n    }\ndefine\n    x as Real(0, 5)\n", "constraint-name-indexed-by-node(well-typed)"),
    ("min x\ns.t.\n    cap_i_s: x >= i for i in 0..2, s in [\"a\", \"b\"]\ndefine\n    x as Real(0, 5)\n", "constraint-name-indexed-by-number-and-string(well-typed)"),
    ("min sum((_, r) in enumerate(M), v in r) { v * x }\ns.t.\n    x >= 1\nwhere\n    let M = [[1, 2], [3, 4]]\ndefine\n    x as Real(0, 5)\n", "index-after-discard-used-as-row"),
    ("min sum((r, _) in enumerate(M), v in r) { v * x }\ns.t.\n    x >= 1\nwhere\n    let M = [[1, 2], [3, 4]]\ndefine\n    x as Real(0, 5)\n", "row-before-discard-used-as-row(well-typed)"),
    ("min x\ns.t.\n    x >= sum(e in neigh_edges_of(n, G)) { 1 } for (_, n) in enumerate([\"P\", \"Q\"])\nwhere\n    let G = Graph {\n        P -> [Q: 2],\n        Q\n    }\ndefine\n    x as Real(0, 5)\n", "index-after-discard-used-as-node-name"),
    ("min x\ns.t.\n    x >= sum(e in neigh_edges_of(n, G)) { 1 } for (n, _) in enumerate([\"P\", \"Q\"])\nwhere\n    let G = Graph {\n        P -> [Q: 2],\n        Q\n    }\ndefine\n    x as Real(0, 5)\n", "name-before-discard-used-as-node-name(well-typed)"),
    ("min x\ns.t.\n    x >= len(w) for (_, _, w) in edges(G)\nwhere\n    let G = Graph {\n        P -> [Q: 2],\n        Q\n    }\ndefine\n    x as Real(0, 5)\n", "weight-after-two-discards-used-as-array"),
    ("min x\ns.t.\n    x >= w for (_, _, w) in edges(G)\nwhere\n    let G = Graph {\n        P -> [Q: 2],\n        Q\n    }\ndefine\n    x as Real(0, 5)\n", "weight-after-two-discards-used-as-number(well-typed)"),
    ("min sum((_, b) in zip(A, S)) { len(b) * x }\ns.t.\n    x >= 1\nwhere\n    let A = [1, 2]\n    let S = [[1], [2, 3]]\ndefine\n    x as Real(0, 5)\n", "second-of-zip-after-discard-used-as-array(well-typed)"),
    ("min sum((_, b) in zip(S, A)) { len(b) * x }\ns.t.\n    x >= 1\nwhere\n    let A = [1, 2]\n    let S = [[1], [2, 3]]\ndefine\n    x as Real(0, 5)\n", "number-after-discard-used-as-array"),
];

#[derive(Debug, Clone)]
struct Token {
    start: usize,
    end: usize,
    ident: bool,
}

fn tokens(text: &str) -> Vec<Token> {
    let b = text.as_bytes();
    let mut v = vec![];
    let mut i = 0;
    while i < b.len() {
        let c = b[i] as char;
        if c.is_ascii_alphabetic() {
            let s = i;
            while i < b.len() && ((b[i] as char).is_ascii_alphanumeric()) {
                i += 1;
            }
            v.push(Token { start: s, end: i, ident: true });
        } else if c.is_ascii_digit() {
            let s = i;
            while i < b.len() && ((b[i] as char).is_ascii_digit() || (b[i] == b'.' && i + 1 < b.len() && (b[i + 1] as char).is_ascii_digit())) {
                i += 1;
            }
            v.push(Token { start: s, end: i, ident: false });
        } else if c == '"' {
            i += 1;
            while i < b.len() && b[i] != b'"' {
                i += 1;
            }
            i += 1;
        } else {
            i += 1;
        }
    }
    v
}

fn with_extra_consts(p: &str) -> String {
    if let Some(pos) = p.find("where\n") {
        let at = pos + "where\n".len();
        format!("{}{}{}", &p[..at], EXTRA_CONSTS, &p[at..])
    } else if let Some(pos) = p.find("define\n") {
        format!("{}where\n{}{}", &p[..pos], EXTRA_CONSTS, &p[pos..])
    } else {
        p.to_string()
    }
}

/// Every base program also declares the escaped literal variable `\esc_SK` (a variable called
/// "esc_SK", not a member of a family esc_*).
fn with_escaped_literal(p: &str) -> String {
    format!("{}    \\esc_SK as Real(0, 5)\n", if p.ends_with('\n') { p.to_string() } else { format!("{p}\n") })
}

pub fn perturb(base: &str, rng: &mut ChaCha8Rng) -> Option<(String, &'static str, String)> {
    let toks: Vec<Token> = tokens(base)
        .into_iter()
        .filter(|t| {
            let s = &base[t.start..t.end];
            !KEYWORDS.contains(&s) && !s.starts_with("S") // keep the helper constants intact
        })
        .collect();
    if toks.is_empty() {
        return None;
    }
    let t = &toks[rng.gen_range(0..toks.len())];
    let (rep, label) = REPLACEMENTS[rng.gen_range(0..REPLACEMENTS.len())];
    // position class of the replaced token, for the evidence matrix
    let line_start = base[..t.start].rfind('\n').map(|p| p + 1).unwrap_or(0);
    let line = &base[line_start..base[t.start..].find('\n').map(|p| p + t.start).unwrap_or(base.len())];
    let before = &base[line_start..t.start];
    let pos = if line.trim_start().starts_with("let ") {
        "where-value"
    } else if before.contains(" for ") || before.trim_start().starts_with("for ") {
        if before.ends_with("..") || before.ends_with("..=") || base[t.end..].starts_with("..") { "range-bound" } else { "iterator" }
    } else if before.ends_with('[') {
        "array-index"
    } else if before.ends_with('_') || before.ends_with("_{") || before.ends_with('{') && before.contains('_') {
        "name-index"
    } else if before.ends_with('(') || before.ends_with(", ") {
        "argument-or-iterator"
    } else if line.contains(" as ") && t.start > line_start + line.find(" as ").unwrap_or(0) {
        "domain-bound"
    } else if t.ident {
        "operand-identifier"
    } else {
        "operand-number"
    };
    let text = format!("{}{}{}", &base[..t.start], rep, &base[t.end..]);
    Some((text, label, pos.to_string()))
}

fn numeric_kind(k: &rooc::PrimitiveKind) -> bool {
    use rooc::PrimitiveKind::*;
    matches!(k, Number | Integer | PositiveInteger | Boolean)
}

/// Some(signature) when the error is a type-class error, None when it is data-dependent,
/// Err(msg) when it cannot be classified.
fn classify(e: &TransformError, source: &str) -> Result<Option<String>, String> {
    Ok(match e.base_error() {
        TransformError::WrongArgument { got, expected }
            if matches!(expected, rooc::PrimitiveKind::PositiveInteger) && matches!(got, rooc::PrimitiveKind::Integer) =>
        {
            None // a negative value where an index / size is needed: out of range
        }
        TransformError::WrongArgument { got, expected } => Some(format!("WrongArgument(expected={expected},got={got})")),
        TransformError::WrongExpectedArgument { got, .. } => Some(format!("WrongExpectedArgument(got={got})")),
        TransformError::WrongFunctionSignature { got, .. } => Some(format!("WrongFunctionSignature(got={})", got.iter().map(|g| g.to_string()).collect::<Vec<_>>().join(","))),
        TransformError::WrongNumberOfArguments { args, .. } => Some(format!("WrongNumberOfArguments({})", args.len())),
        TransformError::BinOpError { operator, lhs, rhs } => {
            if numeric_kind(lhs) && numeric_kind(rhs) && !operator.is_logic() {
                None // the operator applies to these kinds: overflow / division by zero
            } else if operator.is_logic() && matches!(lhs, rooc::PrimitiveKind::Boolean) && matches!(rhs, rooc::PrimitiveKind::Boolean) {
                None
            } else {
                Some(format!("BinOpError({operator},{lhs},{rhs})"))
            }
        }
        TransformError::UnOpError { operator, exp } => {
            if numeric_kind(exp) {
                None
            } else {
                Some(format!("UnOpError({operator},{exp})"))
            }
        }
        TransformError::Unspreadable(k) => Some(format!("Unspreadable({k})")),
        TransformError::SpreadError { to_spread, .. } => Some(format!("SpreadError({to_spread})")),
        TransformError::NonExistentFunction(_) => Some("NonExistentFunction".into()),
        TransformError::UndeclaredVariable(_) => Some("UndeclaredVariable".into()),
        TransformError::UndeclaredVariableDomain(name) => {
            // statically known only when the flattened name is written literally in the source
            // statically known only when the name is written literally AND its family is declared
            // without iteration (a family declared with `for` has data-dependent members)
            let literal = tokens_with_underscore(source).iter().any(|t| t == name);
            let base = name.split('_').next().unwrap_or("");
            let define = source.split("define\n").nth(1).unwrap_or("");
            let computed_family = define.lines().any(|l| l.trim_start().starts_with(&format!("{base}_")) && l.contains(" for "));
            // no family of that base name is declared at all (an escaped literal \\base_x is not a family)
            let family_declared = define.lines().any(|l| l.trim_start().starts_with(&format!("{base}_")));
            if literal && !computed_family {
                Some("UndeclaredVariableDomain(literal-name)".into())
            } else if !family_declared {
                Some("UndeclaredVariableDomain(no-family-of-that-name-declared)".into())
            } else {
                None
            }
        }
        TransformError::OutOfBounds(_) | TransformError::TooLarge { .. } | TransformError::AlreadyDeclaredDomainVariable(_) => None,
        TransformError::AlreadyDeclaredVariable(_) | TransformError::AlreadyDefined { .. } => None,
        TransformError::Other(msg) => {
            let data_dependent = [
                "Cannot destructure tuple of length",
                "Minimum value",
                "not found in graph",
                "must be greater than or equal to 0",
                "Cannot find set at level",
            ];
            if data_dependent.iter().any(|p| msg.contains(p)) {
                None
            } else {
                return Err(msg.chars().take(60).collect());
            }
        }
        TransformError::SpannedError { .. } => return Err("spanned".into()),
    })
}

/// true when some array literal of the text is empty, has elements of different kinds
/// (integer / decimal / string / boolean / array) or rows of different kinds: rooc types its
/// elements as Any.
fn has_any_typed_array(text: &str) -> bool {
    // static kind of a literal; None = contains an Any-typed array
    fn kind(lit: &str) -> Option<String> {
        let p = lit.trim();
        if let Some(body) = p.strip_prefix('[').and_then(|r| r.strip_suffix(']')) {
            let mut depth = 0;
            let mut cur = String::new();
            let mut parts = vec![];
            for c in body.chars() {
                match c {
                    '[' => {
                        depth += 1;
                        cur.push(c);
                    }
                    ']' => {
                        depth -= 1;
                        cur.push(c);
                    }
                    ',' if depth == 0 => {
                        parts.push(cur.clone());
                        cur.clear();
                    }
                    _ => cur.push(c),
                }
            }
            if !cur.trim().is_empty() {
                parts.push(cur);
            }
            if parts.is_empty() {
                return None;
            }
            let kinds: Option<Vec<String>> = parts.iter().map(|x| kind(x)).collect();
            let kinds = kinds?;
            if kinds.iter().any(|k| *k != kinds[0]) {
                return None;
            }
            Some(format!("[{}]", kinds[0]))
        } else if p.starts_with('"') {
            Some("string".into())
        } else if p == "true" || p == "false" {
            Some("boolean".into())
        } else if !p.is_empty() && p.chars().all(|c| c.is_ascii_digit()) {
            Some("integer".into())
        } else if !p.is_empty() && p.chars().all(|c| c.is_ascii_digit() || c == '.') {
            Some("decimal".into())
        } else {
            Some(format!("other:{p}"))
        }
    }
    text.lines()
        .filter(|l| l.trim_start().starts_with("let ") && l.contains('[') && !l.contains("Graph"))
        .any(|l| kind(l.split_once('=').map(|x| x.1).unwrap_or("")).is_none())
}

fn is_mixed(v: &V) -> bool {
    match v {
        V::Arr(xs) => {
            let ints = xs.iter().any(|x| matches!(x, V::Int(_)));
            let nums = xs.iter().any(|x| matches!(x, V::Num(_)));
            (ints && nums) || xs.iter().any(is_mixed)
        }
        _ => false,
    }
}

fn homogenize(v: &mut V) {
    if let V::Arr(xs) = v {
        let ints = xs.iter().any(|x| matches!(x, V::Int(_)));
        for x in xs.iter_mut() {
            match x {
                V::Num(f) if ints => *x = V::Int(f.ceil() as i64),
                V::Arr(_) => homogenize(x),
                _ => {}
            }
        }
        // rows of a matrix must agree with each other too
        let any_int_row = xs.iter().any(|x| matches!(x, V::Arr(r) if r.iter().any(|e| matches!(e, V::Int(_)))));
        if any_int_row {
            for x in xs.iter_mut() {
                if let V::Arr(r) = x {
                    for e in r.iter_mut() {
                        if let V::Num(f) = e {
                            *e = V::Int(f.ceil() as i64);
                        }
                    }
                }
            }
        }
    }
}

fn tokens_with_underscore(text: &str) -> Vec<String> {
    text.split(|c: char| !(c.is_ascii_alphanumeric() || c == '_' || c == '.')).filter(|s| s.contains('_')).map(|s| s.to_string()).collect()
}

impl Driver for C19 {
    fn id(&self) -> &'static str {
        "C19"
    }
    fn units(&self, tier: Tier) -> usize {
        tier.pick(6400, 320000)
    }
    fn run_unit(&self, ctx: &Ctx, out: &mut UnitOut, _start: usize, only: Option<usize>) {
        let mut rng = unit_rng(ctx, "C19", out.unit);
        for case in 0..60 {
            let (mut prog, shape) = gen_prog(&mut rng);
            // arrays mixing integers and decimals are typed Any element-wise (checked at runtime only):
            // most programs get homogeneous arrays, the rest form the dedicated "mixed" stratum
            let keep_mixed = rng.gen_range(0..8) == 0;
            if !keep_mixed {
                for (_, v) in prog.consts.iter_mut() {
                    homogenize(v);
                }
            }
            let _ = prog.consts.iter().any(|(_, v)| is_mixed(v));
            let mut base = with_escaped_literal(&with_extra_consts(&prog.text_p()));
            if keep_mixed {
                // tables whose first row is homogeneous while a later row mixes kinds (the whole table is typed
                // element-wise, whatever the first row looks like)
                base = base.replacen("    let SK = 1\n", "    let SK = 1\n    let SM = [[1, 2], [3, \"a\"]]\n    let SE = [[1, 2], []]\n", 1);
            }
            // two cases per unit come from hand-written destructuring programs in which a component is
            // used as a value of another kind (the name after a discarded `_` must keep its own kind)
            let (text, label, pos) = if case >= 58 {
                let k = (out.unit + case) % DESTRUCTURING.len();
                (DESTRUCTURING[k].0.to_string(), DESTRUCTURING[k].1, "tuple-component".to_string())
            } else if case % 6 == 0 {
                (base.clone(), "unperturbed", "none".to_string())
            } else {
                match perturb(&base, &mut rng) {
                    Some(x) => x,
                    None => continue,
                }
            };
            if only.is_some_and(|o| o != case) {
                continue;
            }
            out.case = case;
            out.eval();
            let mixed = has_any_typed_array(&text);
            let r = std::panic::catch_unwind(|| {
                let parser = RoocParser::new(text.clone());
                let pre = match parser.parse() {
                    Ok(p) => p,
                    Err(_) => return None,
                };
                let tc = pre.create_type_checker(&vec![], &IndexMap::new());
                let tr = pre.transform(vec![], &IndexMap::new());
                Some((tc, tr.err()))
            });
            let Ok(r) = r else {
                out.inconclusive("panic (C18's concern)");
                continue;
            };
            let Some((tc, tr_err)) = r else {
                out.tag("does-not-parse");
                continue;
            };
            match (tc, tr_err) {
                (Err(e), tr) if label.ends_with("(well-typed)") => {
                    out.violation(
                        "well-typed-program-rejected-by-the-type-checker",
                        &format!("the type checker rejects a well-typed destructuring program ({label}): {}", e.traced_error().lines().next().unwrap_or("")),
                        json!({"program": text, "transform_error": tr.map(|e| e.traced_error())}),
                    );
                }
                (Err(_), _) => {
                    out.tag("rejected-by-type-check");
                    out.tag(&format!("matrix:{pos}<-{label}:rejected"));
                }
                (Ok(()), None) => {
                    out.tag("accepted-and-transforms");
                    out.tag(&format!("matrix:{pos}<-{label}:transforms"));
                    out.nontrivial(hash_str(&text));
                    if out.report.samples.is_empty() && out.unit < 6 && label != "unperturbed" {
                        out.sample(json!({"program": text, "replaced_with": label, "position": pos}));
                    }
                }
                (Ok(()), Some(e)) => match classify(&e, &text) {
                    Ok(None) => {
                        out.tag("accepted-then-data-dependent-error");
                        out.tag(&format!("matrix:{pos}<-{label}:data-error"));
                        out.nontrivial(hash_str(&text));
                    }
                    Ok(Some(kind)) => {
                        let sig = if kind.starts_with("WrongArgument(expected=Integer,got=Number)")
                            || kind.starts_with("WrongArgument(expected=PositiveInteger,got=Number)")
                        {
                            "fractional-number-where-integer-required".to_string()
                        } else if mixed && (kind.starts_with("WrongArgument(expected=Number,") || kind.starts_with("BinOpError(") || kind.starts_with("UnOpError(")) {
                            // the recorded finding: an element typed Any passes the static check of a numeric position or
                            // of an operator and fails there at run time; positions that demand an integer, an array, a
                            // string ... reject Any statically, so any other kind of failure is reported as itself, also
                            // in a program that holds such an array
                            out.tag(&format!("deferred-kind:{kind}"));
                            "type-error-deferred-to-runtime(array literal that is empty or mixes element / row kinds: elements typed Any)".to_string()
                        } else {
                            format!("accepted-then-{kind}")
                        };
                        out.violation(
                            &sig,
                            &format!("the type checker accepts the program but the transform fails with a type-class error: {}", e.traced_error().lines().next().unwrap_or("")),
                            json!({"program": text, "replaced_with": label, "position": pos, "shape": shape, "error": e.traced_error()}),
                        );
                    }
                    Err(msg) => out.inconclusive(&format!("unclassified transform error: {msg}")),
                },
            }
        }
    }
    fn rule(&self) -> String {
        "G-data programs (12 construct families, helper constants of every kind added to the where section) with one identifier or number token replaced by a value of another kind: string, boolean, array, nested array, graph, node list, edge list, array element, row, decimal, large integer, zero, negative, len/enumerate/zip calls with right and wrong arity or argument kinds, unknown function, undeclared identifier / compound name, neighbour query for a missing node, set functions and range() with wrong argument kinds, negated Booleans, a compound name whose only namesake is an escaped literal variable; one program in six is left unperturbed; two cases per unit are hand-written destructuring programs (a component after a discarded `_` used as a value of its own kind - must pass - or of a neighbouring component's kind - must be rejected). Position classes: operand, array index, name index, range bound, iterator, argument, domain bound, where-value. Each text that parses is type-checked (PreModel::create_type_checker) and transformed (PreModel::transform); if the check accepts and the transform fails, the base error is classified: wrong argument type/count, operator not applicable to its operand kinds, unspreadable value, unknown function, statically undeclared variable are type-class; out of range, too large, duplicate declaration, overflow / division by zero on numeric operands, tuple length, missing graph node are data-dependent. non-trivial = accepted program (transformed or failed data-dependently) Replacements include blocks and scoped blocks of constants; fixed templates cover tuple destructuring with discards and constraint names indexed by an edge / tuple / array row (ill-typed) or a number / node / string (well-typed).".into()
    }
    fn thresholds(&self, tier: Tier) -> Thresholds {
        let s = tier.pick(10, 100);
        Thresholds {
            min_tags: vec![
                ("accepted-and-transforms", 8000 * s),
                ("rejected-by-type-check", 8000 * s),
                ("accepted-then-data-dependent-error", 500 * s),
            ],
            min_nontrivial: 6000 * s,
        }
    }
}
