//! C06 - data-driven constructs expand exactly like the hand-unrolled text.
use crate::gen_data::*;
use crate::runner::*;
use indexmap::IndexMap;
use rooc::model_transformer::Model;
use rooc::{LinearModel, RoocParser};
use serde_json::{Value, json};

pub struct C06;

pub enum Stage {
    Ok(Model, LinearModel),
    TransformErr(String),
    LinearizeErr(String, String), // kind, message
    Panic,
}

pub fn compile_both(text: &str) -> Stage {
    let r = std::panic::catch_unwind(|| {
        let model = match RoocParser::new(text.to_string()).parse_and_transform(vec![], &IndexMap::new()) {
            Ok(m) => m,
            Err(e) => return Stage::TransformErr(e),
        };
        match rooc::Linearizer::linearize(model.clone()) {
            Ok(lm) => Stage::Ok(model, lm),
            Err(e) => Stage::LinearizeErr(crate::compile::lin_err_kind(&e).to_string(), e.to_string()),
        }
    });
    r.unwrap_or(Stage::Panic)
}

/// One published range contains the other, and in the model with the wider range the rows confine the variable to the
/// tighter range (up to 1e-9) all the same.
fn range_implied_by_rows(pl: &LinearModel, ul: &LinearModel, v: &str, a: (f64, f64), b: (f64, f64)) -> bool {
    use crate::lin::XLin;
    use crate::lp::{LpAnswer, solve_lp};
    use crate::rat::*;
    use num_traits::Signed;
    let (wide_model, tight) = if a.0 <= b.0 && a.1 >= b.1 {
        (pl, b)
    } else if b.0 <= a.0 && b.1 >= a.1 {
        (ul, a)
    } else {
        return false;
    };
    let Ok(x) = XLin::from_rooc(wide_model) else { return false };
    let Some(j) = x.index_of(v) else { return false };
    for maximize in [false, true] {
        let bound = if maximize { tight.1 } else { tight.0 };
        let Some(bq) = q(bound) else { continue };
        let mut lp = x.to_lp();
        lp.c = vec![zero(); lp.vars.len()];
        lp.c[j] = one();
        lp.c0 = zero();
        lp.maximize = maximize;
        for var in lp.vars.iter_mut() {
            var.int = false; // the relaxation bounds the range from outside
        }
        let slack = pow10_neg(9) * qmax(&one(), &bq.abs());
        match solve_lp(&lp) {
            Ok(LpAnswer::Infeasible) => return true,
            Ok(LpAnswer::Optimal { value, .. }) => {
                if (maximize && value > &bq + &slack) || (!maximize && value < &bq - &slack) {
                    return false;
                }
            }
            _ => return false,
        }
    }
    true
}

fn close9(a: f64, b: f64) -> bool {
    a == b || (a - b).abs() <= 1e-9 * a.abs().max(b.abs()).max(1.0)
}

/// Ordered comparison of the two compiled results.
pub fn same_expansion(pm: &Model, pl: &LinearModel, um: &Model, ul: &LinearModel) -> Result<(), (String, String)> {
    let names = |m: &Model| m.constraints().iter().map(|c| c.name().to_string()).collect::<Vec<_>>();
    if pm.constraints().len() != um.constraints().len() {
        return Err(("constraint-count-differs".into(), format!("{} constraints expanded, {} unrolled", pm.constraints().len(), um.constraints().len())));
    }
    if names(pm) != names(um) {
        return Err(("constraint-names-or-order-differ".into(), format!("{:?} vs {:?}", names(pm), names(um))));
    }
    if pl.variables() != ul.variables() {
        return Err(("variable-set-differs".into(), format!("{:?} vs {:?}", pl.variables(), ul.variables())));
    }
    for v in pl.variables() {
        let (a, b) = (pl.domain()[v].get_type(), ul.domain()[v].get_type());
        let (la, ha, ka) = crate::lin::vt_bounds(a);
        let (lb, hb, kb) = crate::lin::vt_bounds(b);
        // derived bounds are sums of the same terms in a different order: equal to 1e-9
        if ka != kb || !(close9(la, lb) || la == lb) || !(close9(ha, hb) || ha == hb) {
            // a coefficient that differs in its last bit (an average summed in another order) can move a derived bound
            // across a declared one, and the published range then jumps (Real(3.75, 6) against Real(3.75, 3.75)) although
            // the rows say the same: the wider range is accepted when the rows of its own model keep the variable inside the
            // tighter one anyway
            if ka == kb && range_implied_by_rows(pl, ul, v, (la, ha), (lb, hb)) {
                continue;
            }
            return Err(("domain-differs".into(), format!("{v}: {a} vs {b}")));
        }
    }
    if pl.optimization_type() != ul.optimization_type() {
        return Err(("objective-sense-differs".into(), String::new()));
    }
    if *pl.optimization_type() != rooc::OptimizationType::Satisfy {
        if !close9(pl.objective_offset(), ul.objective_offset()) {
            return Err(("objective-offset-differs".into(), format!("{} vs {}", pl.objective_offset(), ul.objective_offset())));
        }
        for (j, v) in pl.variables().iter().enumerate() {
            if !close9(pl.objective()[j], ul.objective()[j]) {
                return Err(("objective-coefficient-differs".into(), format!("{v}: {} vs {}", pl.objective()[j], ul.objective()[j])));
            }
        }
    }
    if pl.constraints().len() != ul.constraints().len() {
        return Err(("row-count-differs".into(), format!("{} vs {}", pl.constraints().len(), ul.constraints().len())));
    }
    for (i, (a, b)) in pl.constraints().iter().zip(ul.constraints()).enumerate() {
        if a.name() != b.name() {
            return Err(("row-name-or-order-differs".into(), format!("row {i}: '{}' vs '{}'", a.name(), b.name())));
        }
        if a.constraint_type() != b.constraint_type() {
            return Err(("row-relation-differs".into(), format!("row {i} '{}'", a.name())));
        }
        if !close9(a.rhs(), b.rhs()) {
            return Err(("row-rhs-differs".into(), format!("row {i} '{}': {} vs {}", a.name(), a.rhs(), b.rhs())));
        }
        for (j, v) in pl.variables().iter().enumerate() {
            if !close9(a.coefficients()[j], b.coefficients()[j]) {
                return Err(("row-coefficient-differs".into(), format!("row {i} '{}', {v}: {} vs {}", a.name(), a.coefficients()[j], b.coefficients()[j])));
            }
        }
    }
    Ok(())
}

impl Driver for C06 {
    fn id(&self) -> &'static str {
        "C06"
    }
    fn units(&self, tier: Tier) -> usize {
        tier.pick(3200, 200000)
    }
    fn run_unit(&self, ctx: &Ctx, out: &mut UnitOut, _start: usize, only: Option<usize>) {
        let mut rng = unit_rng(ctx, "C06", out.unit);
        for case in 0..50 {
            let (prog, shape) = gen_prog(&mut rng);
            if only.is_some_and(|o| o != case) {
                continue;
            }
            out.case = case;
            out.eval();
            let p_text = prog.text_p();
            let (u_text, expect_empty) = match prog.text_u() {
                Ok(x) => x,
                Err(UnrollErr::Undefined(why)) => {
                    out.tag(&format!("reference-undefined:{}", why.split(' ').take(3).collect::<Vec<_>>().join("-")));
                    continue;
                }
            };
            let detail = |extra: Value| json!({"shape": shape, "program": p_text, "unrolled": u_text, "detail": extra});
            let p = compile_both(&p_text);
            if let Some(kind) = expect_empty {
                // an empty numeric aggregation cannot be written by hand: the program must be rejected
                match &p {
                    Stage::LinearizeErr(k, _) if k == "EmptyAggregation" || k == "DivisionByZero" => {
                        out.tag(&format!("empty-{kind}-rejected"));
                        out.nontrivial(hash_str(&p_text));
                    }
                    Stage::TransformErr(e) => out.violation(&format!("empty-{kind}-aggregation:transform-error"), e.lines().next().unwrap_or(""), detail(json!(e))),
                    Stage::Ok(..) => out.violation(&format!("empty-{kind}-aggregation-accepted"), &format!("an empty {kind} aggregation compiled to a value"), detail(Value::Null)),
                    Stage::LinearizeErr(k, m) => out.violation(&format!("empty-{kind}-aggregation:{k}"), m, detail(Value::Null)),
                    Stage::Panic => out.inconclusive("panic (C18's concern)"),
                }
                continue;
            }
            let u = compile_both(&u_text);
            match (p, u) {
                (Stage::Ok(pm, pl), Stage::Ok(um, ul)) => match same_expansion(&pm, &pl, &um, &ul) {
                    Ok(()) => {
                        out.tag(&format!("expands-like-unrolled:{shape}"));
                        out.tag("agree");
                        if pl.constraints().len() + pl.variables().len() >= 2 {
                            out.nontrivial(hash_str(&p_text));
                        }
                        if pm.constraints().is_empty() {
                            out.tag("empty-expansion");
                        }
                        if out.report.samples.is_empty() && out.unit < 6 {
                            out.sample(json!({"program": p_text, "unrolled": u_text}));
                        }
                    }
                    Err((sig, what)) => out.violation(&format!("{sig}({shape})"), &what, detail(json!({"expanded": pl.to_string(), "from_unrolled": ul.to_string()}))),
                },
                (Stage::TransformErr(a), Stage::TransformErr(_)) => {
                    out.tag(&format!("both-rejected:transform:{}", a.split(']').next().unwrap_or("").trim_start_matches('[')));
                }
                (Stage::LinearizeErr(a, _), Stage::LinearizeErr(b, _)) if a == b => out.tag(&format!("both-rejected:{a}")),
                (Stage::Panic, _) | (_, Stage::Panic) => out.inconclusive("panic (C18's concern)"),
                (p, u) => {
                    let d = |s: &Stage| match s {
                        Stage::Ok(..) => "compiles".to_string(),
                        Stage::TransformErr(e) => format!("transform error: {}", e.lines().next().unwrap_or("")),
                        Stage::LinearizeErr(k, m) => format!("{k}: {m}"),
                        Stage::Panic => "panic".into(),
                    };
                    out.violation(&format!("only-one-compiles({shape})"), &format!("data-driven program: {}; unrolled text: {}", d(&p), d(&u)), detail(Value::Null));
                }
            }
        }
    }
    fn rule(&self) -> String {
        "random data-driven programs from 12 construct families (ranges with index arithmetic; enumerate+len; nested dependent iteration with two-index names incl. x_1_23 vs x_12_3; nested arrays with row iteration and M[i][j]; zip; union/intersection/difference; graphs with nodes/edges/neigh_edges/neigh_edges_of, weights and _ patterns; all/any/xor aggregations; explicit blocks mixed with scoped ones and prod; computed constraint and variable names; inclusive/exclusive/empty/reversed ranges with for-quantified declarations) over random data (arrays of 0..3 numbers, 1-2 row matrices, 2-4 node graphs); the harness's own unroller (its own ranges, enumerate, zip, len, set functions, graph iterators, tuple destructuring, name flattening) writes the twin text; both texts go through the real parser, transformer and linearizer and must give the same constraint names in the same order, the same variable list and domains, objective and the same rows in order (coefficients and right-hand sides to 1e-9); empty avg/min/max aggregations must be rejected. non-trivial = agreeing pair with at least two rows/variables".into()
    }
    fn thresholds(&self, tier: Tier) -> Thresholds {
        let s = tier.pick(4, 40);
        Thresholds {
            min_tags: vec![
                ("agree", 20000 * s),
                ("expands-like-unrolled:range+index-arithmetic", 1000 * s),
                ("expands-like-unrolled:enumerate+len", 1000 * s),
                ("expands-like-unrolled:nested-iteration+two-indexes", 1000 * s),
                ("expands-like-unrolled:nested-arrays+array-access", 1000 * s),
                ("expands-like-unrolled:zip", 1000 * s),
                ("expands-like-unrolled:set-functions", 1000 * s),
                ("expands-like-unrolled:graph:edges+neigh_edges", 1000 * s),
                ("expands-like-unrolled:graph:neigh_edges_of+weights", 1000 * s),
                ("expands-like-unrolled:logic-aggregations", 1000 * s),
                ("expands-like-unrolled:blocks+prod", 500 * s),
                ("expands-like-unrolled:computed-names", 1000 * s),
                ("expands-like-unrolled:range-forms+for-declarations", 1000 * s),
                ("empty-expansion", 100 * s),
            ],
            min_nontrivial: 10000 * s,
        }
    }
}
