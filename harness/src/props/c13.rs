//! C13 - standard-form conversion preserves the problem.
use crate::gen_lp::*;
use crate::lin::*;
use crate::lp::*;
use crate::rat::*;
use crate::runner::*;
use num_traits::{Signed, Zero};
use rand::Rng;
use rand_chacha::ChaCha8Rng;
use serde_json::{Value, json};

pub struct C13;

pub struct XStd {
    pub vars: Vec<String>,
    pub c: Vec<Q>,
    pub offset: Q,
    pub flip: bool,
    pub rows: Vec<(Vec<Q>, Q)>,
}

pub fn read_std(s: &rooc::StandardLinearModel) -> Result<XStd, String> {
    let conv = |v: &Vec<f64>| -> Result<Vec<Q>, String> {
        v.iter().map(|f| q(*f).ok_or_else(|| format!("non-finite {f}"))).collect()
    };
    let n = s.verif_variables().len();
    let mut rows = vec![];
    for (a, b) in s.verif_rows() {
        if a.len() != n {
            return Err(format!("row has {} coefficients for {n} variables", a.len()));
        }
        rows.push((conv(&a)?, q(b).ok_or("non-finite rhs")?));
    }
    if s.verif_objective().len() != n {
        return Err("objective length differs from the variable count".into());
    }
    Ok(XStd {
        vars: s.verif_variables().clone(),
        c: conv(s.verif_objective())?,
        offset: q(s.verif_objective_offset()).ok_or("non-finite offset")?,
        flip: s.verif_flip_objective(),
        rows,
    })
}

impl XStd {
    pub fn as_lp(&self, c: Option<Vec<Q>>) -> Lp {
        Lp {
            vars: self.vars.iter().map(|_| LpVar { lo: Some(zero()), hi: None, int: false }).collect(),
            rows: self.rows.iter().map(|(a, b)| LpRow { a: a.clone(), rel: Rel::Eq, b: b.clone() }).collect(),
            c: c.unwrap_or_else(|| self.c.clone()),
            c0: zero(),
            maximize: false,
        }
    }
    /// objective of the original model recovered from a standard-form point
    pub fn original_objective(&self, y: &[Q]) -> Q {
        let mut v = zero();
        for (c, yi) in self.c.iter().zip(y) {
            if !c.is_zero() {
                v += c * yi;
            }
        }
        if self.flip { -v + &self.offset } else { v + &self.offset }
    }
    fn index(&self, name: &str) -> Option<usize> {
        self.vars.iter().position(|v| v == name)
    }
    /// psi: standard-form point -> original variables (x = $p x - $m x)
    pub fn map_back(&self, xl: &XLin, y: &[Q]) -> Result<Vec<Q>, String> {
        xl.vars
            .iter()
            .map(|v| {
                if let Some(j) = self.index(&v.name) {
                    Ok(y[j].clone())
                } else {
                    let p = self.index(&format!("$p{}", v.name));
                    let m = self.index(&format!("$m{}", v.name));
                    match (p, m) {
                        (Some(p), Some(m)) => Ok(&y[p] - &y[m]),
                        _ => Err(format!("variable {} has no image in the standard form", v.name)),
                    }
                }
            })
            .collect()
    }
    /// phi: original point -> standard-form point; split parts shifted by t, slack/surplus solved per row
    pub fn map_forward(&self, xl: &XLin, x: &[Q], t: &Q) -> Result<Vec<Q>, String> {
        let n = self.vars.len();
        let mut y: Vec<Option<Q>> = vec![None; n];
        for (i, v) in xl.vars.iter().enumerate() {
            if let Some(j) = self.index(&v.name) {
                y[j] = Some(x[i].clone());
            } else {
                let p = self.index(&format!("$p{}", v.name)).ok_or("missing positive part")?;
                let m = self.index(&format!("$m{}", v.name)).ok_or("missing negative part")?;
                let pos = if x[i].is_positive() { x[i].clone() } else { zero() };
                let neg = if x[i].is_negative() { -x[i].clone() } else { zero() };
                y[p] = Some(pos + t);
                y[m] = Some(neg + t);
            }
        }
        // every remaining column must be a slack/surplus that occurs in exactly one row
        for j in 0..n {
            if y[j].is_some() {
                continue;
            }
            let rows: Vec<usize> = (0..self.rows.len()).filter(|r| !self.rows[*r].0[j].is_zero()).collect();
            if rows.len() != 1 {
                return Err(format!("column {} is neither an original variable nor a single-row slack", self.vars[j]));
            }
            let r = rows[0];
            let mut rest = zero();
            for k in 0..n {
                if k != j && !self.rows[r].0[k].is_zero() {
                    match &y[k] {
                        Some(v) => rest += &self.rows[r].0[k] * v,
                        None => return Err("two undetermined columns in one row".into()),
                    }
                }
            }
            y[j] = Some((&self.rows[r].1 - rest) / &self.rows[r].0[j]);
        }
        Ok(y.into_iter().map(|v| v.unwrap()).collect())
    }
    pub fn feasible(&self, y: &[Q]) -> bool {
        if y.iter().any(|v| v.is_negative()) {
            return false;
        }
        self.rows.iter().all(|(a, b)| {
            let mut s = zero();
            for (c, v) in a.iter().zip(y) {
                if !c.is_zero() {
                    s += c * v;
                }
            }
            s == *b
        })
    }
}

fn rand_obj(rng: &mut ChaCha8Rng, n: usize) -> Vec<Q> {
    (0..n).map(|_| qi(rng.gen_range(-3..=3))).collect()
}

pub fn check_standard_form(spec: &LmSpec, rng: &mut ChaCha8Rng, out: &mut UnitOut) -> Result<(), (String, String, Value)> {
    // half of the models carry their domain map in another order than their column list
    let lm = if rng.gen_bool(0.5) {
        out.tag("domain-order-differs-from-column-order");
        spec.to_rooc_domain_shuffled(rng)
    } else {
        spec.to_rooc()
    };
    let xl = XLin::from_rooc(&lm).map_err(|_| ("skip".to_string(), String::new(), Value::Null))?;
    let std = match std::panic::catch_unwind(std::panic::AssertUnwindSafe(|| lm.clone().into_standard_form())) {
        Ok(Ok(s)) => s,
        Ok(Err(e)) => {
            out.tag(&format!("rejected:{}", crate::solve::map_err(e).kind()));
            return Ok(());
        }
        Err(_) => {
            out.inconclusive("panic in into_standard_form (C18's concern)");
            return Ok(());
        }
    };
    let xs = read_std(&std).map_err(|e| ("malformed-standard-form".to_string(), e, json!({"model": spec})))?;
    let detail = |extra: Value| json!({"model": spec, "model_text": lm.to_string(), "standard_form": std.to_string(), "detail": extra});
    // structural
    for (i, (_, b)) in xs.rows.iter().enumerate() {
        if b.is_negative() {
            return Err(("negative-rhs".into(), format!("standard-form row {i} has right-hand side {}", show(b)), detail(Value::Null)));
        }
    }
    out.tag("converted");
    let lp_l = xl.to_lp();
    // whole-model: certified verdict and optimum must coincide
    let ans_l = solve_lp(&lp_l);
    let ans_s = solve_lp(&xs.as_lp(None));
    match (&ans_l, &ans_s) {
        (Ok(a), Ok(b_)) => {
            if a.kind() != b_.kind() {
                return Err((
                    format!("status-mismatch({}->{})", a.kind(), b_.kind()),
                    format!("original model is {} but its standard form is {}", a.kind(), b_.kind()),
                    detail(Value::Null),
                ));
            }
            out.tag(&format!("status-agrees:{}", a.kind()));
            if let (LpAnswer::Optimal { value: va, .. }, LpAnswer::Optimal { x: ys, .. }) = (a, b_) {
                let vs = xs.original_objective(ys);
                if *va != vs {
                    return Err((
                        "optimum-mismatch".into(),
                        format!("optimum of the original is {} but the standard form (after flip and offset) gives {}", show(va), show(&vs)),
                        detail(Value::Null),
                    ));
                }
            }
        }
        _ => out.inconclusive("oracle could not decide one of the two models"),
    }
    // psi direction: vertices of S under random objectives must map back into L with equal objective
    let ns = xs.vars.len();
    for k in 0..4 {
        let obj = if k == 0 { None } else { Some(rand_obj(rng, ns)) };
        let pts: Vec<Vec<Q>> = match solve_lp(&xs.as_lp(obj)) {
            Ok(LpAnswer::Optimal { x, .. }) => vec![x],
            Ok(LpAnswer::Unbounded { x, ray }) => {
                let far: Vec<Q> = x.iter().zip(&ray).map(|(a, r)| a + r * qi(3)).collect();
                vec![x, far]
            }
            _ => vec![],
        };
        for y in pts {
            out.eval();
            if !xs.feasible(&y) {
                continue;
            }
            let x = xs.map_back(&xl, &y).map_err(|e| ("unmappable".to_string(), e, detail(Value::Null)))?;
            if !lp_l.is_feasible(&x, false) {
                let (v, what) = xl.max_violation(&x);
                let class = if what.contains("bound") { "bound-not-enforced" } else { "row-not-enforced" };
                return Err((
                    format!("standard-form-point-maps-to-infeasible({class})"),
                    format!("a feasible point of the standard form maps back to a point that violates the original: {what} by {}", show(&v)),
                    detail(json!({"standard_point": show_vec(&y), "mapped": show_vec(&x)})),
                ));
            }
            let (ol, os) = (xl.objective_at(&x), xs.original_objective(&y));
            if xl.sense != rooc::OptimizationType::Satisfy && ol != os {
                return Err((
                    "objective-differs-on-mapped-point".into(),
                    format!("objective {} in the original, {} through the standard form", show(&ol), show(&os)),
                    detail(json!({"standard_point": show_vec(&y), "mapped": show_vec(&x)})),
                ));
            }
            out.tag("psi-checked");
        }
    }
    // phi direction: vertices of L under random objectives (and points off them) must map into S
    let nl = xl.vars.len();
    for k in 0..4 {
        let mut lp = lp_l.clone();
        if k > 0 {
            lp.c = rand_obj(rng, nl);
        }
        let pts: Vec<Vec<Q>> = match solve_lp(&lp) {
            Ok(LpAnswer::Optimal { x, .. }) => vec![x],
            Ok(LpAnswer::Unbounded { x, ray }) => {
                let far: Vec<Q> = x.iter().zip(&ray).map(|(a, r)| a + r * qf(5, 2)).collect();
                vec![x, far]
            }
            _ => vec![],
        };
        for x in pts {
            for t in [zero(), qf(3, 2)] {
                out.eval();
                let y = xs.map_forward(&xl, &x, &t).map_err(|e| ("unmappable".to_string(), e, detail(Value::Null)))?;
                if !xs.feasible(&y) {
                    return Err((
                        "feasible-point-has-no-image".into(),
                        "a feasible point of the original has no feasible image in the standard form".into(),
                        detail(json!({"point": show_vec(&x), "image": show_vec(&y)})),
                    ));
                }
                let (ol, os) = (xl.objective_at(&x), xs.original_objective(&y));
                if ol != os {
                    return Err((
                        "objective-differs-on-image".into(),
                        format!("objective {} in the original, {} at the image", show(&ol), show(&os)),
                        detail(json!({"point": show_vec(&x), "image": show_vec(&y)})),
                    ));
                }
                out.tag("phi-checked");
            }
        }
    }
    // infeasible points of L must not get a feasible image
    for _ in 0..3 {
        let x: Vec<Q> = (0..nl).map(|_| qf(rng.gen_range(-12..=12), 2)).collect();
        if lp_l.is_feasible(&x, false) {
            continue;
        }
        out.eval();
        if let Ok(y) = xs.map_forward(&xl, &x, &zero()) {
            if xs.feasible(&y) {
                return Err((
                    "infeasible-point-has-feasible-image".into(),
                    "a point violating the original maps to a feasible point of the standard form".into(),
                    detail(json!({"point": show_vec(&x), "image": show_vec(&y)})),
                ));
            }
            out.tag("infeasible-image-checked");
        }
    }
    Ok(())
}

impl Driver for C13 {
    fn id(&self) -> &'static str {
        "C13"
    }
    fn units(&self, tier: Tier) -> usize {
        tier.pick(3200, 48000)
    }
    fn run_unit(&self, ctx: &Ctx, out: &mut UnitOut, _start: usize, only: Option<usize>) {
        let mut rng = unit_rng(ctx, "C13", out.unit);
        for case in 0..25 {
            let mut spec = gen_lm(
                &mut rng,
                &LpGenOpts { continuous_only: true, allow_satisfy: false, max_vars: 5, max_rows: 5, ..Default::default() },
            );
            if rng.gen_range(0..12) == 0 && !spec.rows.is_empty() {
                // right-hand sides just below zero: the sign normalisation must still apply
                let k = rng.gen_range(0..spec.rows.len());
                spec.rows[k].b = -[1e-6, 1e-9, 3e-6][rng.gen_range(0..3)];
            }
            if rng.gen_range(0..10) == 0 {
                // bounds of a few millionths are bounds: each needs its row like any other
                for (_, t) in spec.vars.iter_mut() {
                    if rng.gen_bool(0.5) {
                        let tiny = [5e-6, 2e-6, 8e-7][rng.gen_range(0..3)];
                        match t {
                            VSpec::NonNeg(lo, _) if *lo == 0.0 => *lo = tiny,
                            VSpec::Real(Some(lo), _) if *lo == 0.0 => *lo = -tiny,
                            VSpec::Real(_, Some(hi)) if *hi == 0.0 => *hi = tiny,
                            _ => {}
                        }
                    }
                }
            }
            let mut prng = unit_rng(ctx, "C13p", out.unit * 100 + case);
            if only.is_some_and(|o| o != case) {
                continue;
            }
            out.case = case;
            match check_standard_form(&spec, &mut prng, out) {
                Ok(()) => {
                    let frees = spec.vars.iter().filter(|(_, t)| matches!(t, VSpec::Real(..))).count();
                    if frees > 0 && !spec.rows.is_empty() {
                        out.nontrivial(spec.shape_hash());
                    }
                    if frees > 0 && frees < spec.vars.len() {
                        out.tag("interleaved-free-and-nonneg");
                    }
                    if case == 0 && out.unit < 3 {
                        let lm = spec.to_rooc();
                        if let Ok(s) = lm.clone().into_standard_form() {
                            out.sample(json!({"model": lm.to_string(), "standard_form": s.to_string()}));
                        }
                    }
                }
                Err((sig, what, detail)) => {
                    if sig != "skip" {
                        out.violation(&sig, &what, detail);
                    }
                }
            }
        }
    }
    fn rule(&self) -> String {
        "continuous G-lp models (<=5 variables, <=5 rows, every interleaving of free / non-negative / bounded / half-bounded variables, <=, >=, = rows with right-hand sides of either sign incl. -1e-6, zero coefficients on free variables, min and max) converted by into_standard_form(); read through the guarded accessors; exact checks: rhs >= 0; certified verdict and optimum of model and standard form coincide; vertices and ray points of the standard form under 4 objectives map back (x = $p-$m) to feasible points with equal objective; vertices/ray points of the model under 4 objectives, with both halves of every split shifted by 0 and 3/2, map to feasible standard-form points with equal objective; infeasible points get no feasible image. non-trivial = has a Real variable (split) and at least one row One model in ten carries declared bounds of a few millionths (5e-6, 2e-6, 8e-7).".into()
    }
    fn thresholds(&self, tier: Tier) -> Thresholds {
        let s = tier.pick(10, 150);
        Thresholds {
            min_tags: vec![
                ("converted", 5000 * s),
                ("psi-checked", 5000 * s),
                ("phi-checked", 5000 * s),
                ("status-agrees:optimal", 1000 * s),
                ("status-agrees:infeasible", 500 * s),
                ("status-agrees:unbounded", 300 * s),
                ("interleaved-free-and-nonneg", 1000 * s),
                ("infeasible-image-checked", 1000 * s),
            ],
            min_nontrivial: 2000 * s,
        }
    }
    fn assumptions(&self) -> Vec<String> {
        vec!["the naming convention $p<name>/$m<name> (documented in OptimalTableau::as_lp_solution) identifies the two halves of a split variable; slack/surplus columns are recognised as columns occurring in exactly one row".into()]
    }
}
