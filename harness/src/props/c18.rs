//! C18 - the compiler is total: no stage panics, overflows, aborts or runs away, and every error renders.
use crate::exprtext::render;
use crate::gen_data::gen_prog;
use crate::gen_model::*;
use crate::props::c09::{names, program_for, random_tokens};
use crate::runner::*;
use crate::text::*;
use indexmap::IndexMap;
use rand::Rng;
use rand::seq::SliceRandom;
use rand_chacha::ChaCha8Rng;
use rooc::RoocParser;
use serde_json::{Value, json};
use std::cell::RefCell;

pub struct C18;

thread_local! {
    pub static LAST_PANIC: RefCell<Option<(String, String)>> = const { RefCell::new(None) };
}

/// Installed in workers: remembers where the last panic happened (message, file:line).
pub fn install_panic_recorder() {
    std::panic::set_hook(Box::new(|info| {
        let loc = info.location().map(|l| format!("{}:{}", l.file().rsplit("/src/").next().map(|s| format!("src/{s}")).unwrap_or_default(), l.line())).unwrap_or_default();
        let crate_hint = info.location().map(|l| {
            let f = l.file();
            if f.contains("/repo/packages/rooc") { "rooc".to_string() } else { f.split('/').find(|p| p.contains('-') && p.chars().any(|c| c.is_ascii_digit())).unwrap_or("?").to_string() }
        }).unwrap_or_default();
        let msg = if let Some(s) = info.payload().downcast_ref::<&str>() { s.to_string() } else if let Some(s) = info.payload().downcast_ref::<String>() { s.clone() } else { "panic".to_string() };
        LAST_PANIC.with(|p| *p.borrow_mut() = Some((msg, format!("{crate_hint}:{loc}"))));
    }));
}

fn guarded<T>(f: impl FnOnce() -> T) -> Result<T, (String, String)> {
    match std::panic::catch_unwind(std::panic::AssertUnwindSafe(f)) {
        Ok(v) => Ok(v),
        Err(_) => Err(LAST_PANIC.with(|p| p.borrow_mut().take()).unwrap_or(("panic".into(), "?".into()))),
    }
}

/// Runs every public stage on one input. Returns (stage outcomes, first panic if any).
pub fn run_all_stages(src: &str) -> (Vec<(&'static str, String)>, Option<(&'static str, String, String)>) {
    let mut log: Vec<(&'static str, String)> = vec![];
    let mut panic: Option<(&'static str, String, String)> = None;
    macro_rules! stage {
        ($name:expr, $body:expr) => {
            match guarded(|| $body) {
                Ok(v) => Some(v),
                Err((m, l)) => {
                    if panic.is_none() {
                        panic = Some(($name, m, l));
                    }
                    log.push(($name, "panic".into()));
                    None
                }
            }
        };
    }
    let parser = RoocParser::new(src.to_string());
    let parsed = stage!("parse", parser.parse());
    match &parsed {
        Some(Ok(_)) => log.push(("parse", "ok".into())),
        Some(Err(e)) => {
            log.push(("parse", "error".into()));
            let _ = stage!("render-parse-error", e.to_string_from_source(src));
            let _ = stage!("render-parse-error", e.to_string());
        }
        None => {}
    }
    if let Some(r) = stage!("format", parser.format()) {
        log.push(("format", if r.is_ok() { "ok".into() } else { "error".into() }));
        if let Ok(f) = r {
            // the formatted text goes through the parser again
            let _ = stage!("parse-formatted", RoocParser::new(f).parse().is_ok());
        }
    }
    if let Some(r) = stage!("type_check", parser.type_check(&vec![], &IndexMap::new())) {
        log.push(("type_check", if r.is_ok() { "ok".into() } else { "error".into() }));
    }
    if let Some(Ok(pre)) = parsed {
        // structured errors and their rendering
        if let Some(Err(e)) = stage!("type_check", pre.create_type_checker(&vec![], &IndexMap::new())) {
            match stage!("render-type-error", e.trace_from_source(src)) {
                Some(Err(msg)) => log.push(("render-type-error", format!("failed: {msg}"))),
                _ => {}
            }
            let _ = stage!("render-type-error", e.traced_error());
        }
        let model = stage!("transform", pre.transform(vec![], &IndexMap::new()));
        match model {
            Some(Ok(model)) => {
                log.push(("transform", "ok".into()));
                let _ = stage!("render-model", model.to_string());
                match stage!("linearize", rooc::Linearizer::linearize(model)) {
                    Some(Ok(lm)) => {
                        log.push(("linearize", "ok".into()));
                        let _ = stage!("render-linear-model", lm.to_string());
                        let _ = stage!("lp-export", lm.to_lp_format());
                        if lm.variables().len() <= 40 && lm.constraints().len() <= 80 {
                            match stage!("standardise", lm.clone().into_standard_form()) {
                                Some(Ok(std)) => {
                                    log.push(("standardise", "ok".into()));
                                    let _ = stage!("render-standard-form", std.to_string());
                                    match stage!("tableau", std.into_tableau()) {
                                        Some(Ok(mut t)) => {
                                            if let Some(r) = stage!("tableau-solve", t.solve(2000)) {
                                                log.push(("tableau-solve", if r.is_ok() { "ok".into() } else { "error".into() }));
                                            }
                                        }
                                        Some(Err(e)) => {
                                            let _ = stage!("render-tableau-error", e.to_string());
                                            log.push(("tableau", "error".into()));
                                        }
                                        None => {}
                                    }
                                }
                                Some(Err(e)) => {
                                    let _ = stage!("render-solver-error", e.to_string());
                                    log.push(("standardise", "error".into()));
                                }
                                None => {}
                            }
                            match stage!("solve", rooc::auto_solver(&lm)) {
                                Some(Ok(sol)) => {
                                    log.push(("solve", "ok".into()));
                                    let _ = stage!("render-solution", sol.to_string());
                                }
                                Some(Err(e)) => {
                                    log.push(("solve", "error".into()));
                                    let _ = stage!("render-solver-error", e.to_string());
                                }
                                None => {}
                            }
                        } else {
                            log.push(("solve", "skipped(large)".into()));
                        }
                    }
                    Some(Err(e)) => {
                        log.push(("linearize", "error".into()));
                        let _ = stage!("render-linearization-error", e.to_string());
                    }
                    None => {}
                }
            }
            Some(Err(e)) => {
                log.push(("transform", "error".into()));
                match stage!("render-transform-error", e.trace_from_source(src)) {
                    Some(Err(msg)) => log.push(("render-transform-error", format!("failed: {msg}"))),
                    _ => {}
                }
                let _ = stage!("render-transform-error", e.traced_error());
                let _ = stage!("render-transform-error", e.to_string());
            }
            None => {}
        }
    }
    (log, panic)
}

// ---------------------------------------------------------------------------
// hostile inputs
// ---------------------------------------------------------------------------

fn valid_program(rng: &mut ChaCha8Rng) -> String {
    match rng.gen_range(0..3) {
        0 => {
            let stratum = STRATA[rng.gen_range(0..STRATA.len())];
            let m = gen_model(rng, stratum);
            let style = Style::random(rng);
            model_text(&m, rng, style)
        }
        1 => gen_prog(rng).0.text_p(),
        _ => {
            let toks = random_tokens(rng, 10);
            program_for(&render(&toks, &names(), rng.gen_bool(0.5)))
        }
    }
}

const EXTREMES: [&str; 18] = [
    "9223372036854775807",
    "9223372036854775808",
    "18446744073709551615",
    "18446744073709551616",
    "340282366920938463463374607431768211456",
    "2147483647",
    "2147483648",
    "4294967296",
    "0.000000000000000000000000000000000000000000001",
    "179769313486231570000000000000000000000000000000000000000000000000000000000000000000000000000000000000000000000000000000000000000000000000000000000000000000000000000000000000000000000000000000000000000000000000000000000000000000000000000000000000000000000000000000000000000000000000000000000000000000000000000",
    "1797693134862315700000000000000000000000000000000000000000000000000000000000000000000000000000000000000000000000000000000000000000000000000000000000000000000000000000000000000000000000000000000000000000000000000000000000000000000000000000000000000000000000000000000000000000000000000000000000000000000000000000000",
    "0",
    "00000",
    "1.0",
    "0.1",
    "16384",
    "16385",
    "65536",
];

fn split_tokens(text: &str) -> Vec<String> {
    let mut out = vec![];
    let mut cur = String::new();
    let mut kind = 0; // 0 none, 1 word, 2 space, 3 symbol
    for c in text.chars() {
        let k = if c.is_alphanumeric() || c == '_' || c == '.' { 1 } else if c.is_whitespace() { 2 } else { 3 };
        if (k != kind || k == 3) && !cur.is_empty() {
            out.push(std::mem::take(&mut cur));
        }
        cur.push(c);
        kind = k;
    }
    if !cur.is_empty() {
        out.push(cur);
    }
    out
}

fn mutate(text: &str, rng: &mut ChaCha8Rng) -> (String, &'static str) {
    let mut toks = split_tokens(text);
    if toks.is_empty() {
        return (text.to_string(), "none");
    }
    let n = toks.len();
    let kind = rng.gen_range(0..9);
    let label = match kind {
        0 => {
            toks.remove(rng.gen_range(0..n));
            "delete-token"
        }
        1 => {
            let i = rng.gen_range(0..n);
            let t = toks[i].clone();
            toks.insert(i, t);
            "duplicate-token"
        }
        2 => {
            let (i, j) = (rng.gen_range(0..n), rng.gen_range(0..n));
            toks.swap(i, j);
            "swap-tokens"
        }
        3 | 4 => {
            // numeric extremes in place of a number
            let nums: Vec<usize> = (0..n).filter(|i| toks[*i].chars().next().is_some_and(|c| c.is_ascii_digit())).collect();
            if let Some(&i) = nums.choose(rng) {
                toks[i] = EXTREMES.choose(rng).unwrap().to_string();
            }
            "numeric-extreme"
        }
        5 => {
            // negate / double-negate a number or identifier
            let i = rng.gen_range(0..n);
            toks[i] = format!("-(0 - {} - 1)", toks[i]);
            "negation-wrap"
        }
        6 => {
            // deep index
            let ids: Vec<usize> = (0..n).filter(|i| toks[*i].chars().next().is_some_and(|c| c.is_alphabetic())).collect();
            if let Some(&i) = ids.choose(rng) {
                let depth = rng.gen_range(1..20);
                toks[i] = format!("{}{}", toks[i], "[0]".repeat(depth));
            }
            "deep-index"
        }
        7 => {
            // a large but bounded range
            let nums: Vec<usize> = (0..n).filter(|i| toks[*i].chars().all(|c| c.is_ascii_digit())).collect();
            if let Some(&i) = nums.choose(rng) {
                toks[i] = ["1000", "4000", "100000"].choose(rng).unwrap().to_string();
            }
            "larger-number"
        }
        _ => {
            let i = rng.gen_range(0..n);
            toks[i] = ["{", "}", "(", ")", "[", "]", "\"", "_", "\\", "..", "..=", "->", "<->", "$", "\u{00e9}", "\u{2264}", "\u{1F600}", "for", "in", "as", "let", ":", ",,"].choose(rng).unwrap().to_string();
            "inject-symbol"
        }
    };
    (toks.concat(), label)
}

fn noise(rng: &mut ChaCha8Rng) -> String {
    let len = rng.gen_range(0..400);
    if rng.gen_bool(0.5) {
        let bytes: Vec<u8> = (0..len).map(|_| rng.gen()).collect();
        String::from_utf8_lossy(&bytes).into_owned()
    } else {
        let alphabet = ["min ", "max ", "solve", "s.t.", "\n", " ", "x", "y_i", "1", "2.5", "+", "-", "*", "/", "(", ")", "{", "}", "[", "]", "<=", ">=", "=", "sum", "for", "in", "0..3", "where", "let", "define", "as", "Real", "Boolean", ",", ":", "\"", "_", "and", "not", "abs", "Graph", "->", "\t", "//", "/*", "*/"];
        (0..len / 3).map(|_| *alphabet.choose(rng).unwrap()).collect()
    }
}

fn nested(rng: &mut ChaCha8Rng) -> (String, &'static str) {
    let depth = rng.gen_range(2..=64);
    match rng.gen_range(0..12) {
        10 => {
            // min / max blocks nested in each other, with a variable at the bottom or constants only
            let d = depth.min(64);
            let leaf = ["x", "2", "x + 1"][rng.gen_range(0..3)];
            let mut body = leaf.to_string();
            for _ in 0..d {
                let name = ["max", "min"][rng.gen_range(0..2)];
                body = if rng.gen_bool(0.5) { format!("{name} {{ {body}, 1 }}") } else { format!("{name} {{ 0, {body} }}") };
            }
            (format!("min {body}\ns.t.\n    x >= 0\ndefine\n    x as Real(0, 1)\n"), "nested-extremes")
        }
        11 => {
            // blocks and scoped blocks inside the ends of a range and inside an index
            let end = ["max { 2, 3 }", "sum(j in 0..2) { 7 }", "abs { -3 }", "min { 4, len(A) }", "len(A)"][rng.gen_range(0..5)];
            let start = ["0", "min { 0, 1 }", "len(A) - 2"][rng.gen_range(0..3)];
            let body = ["x_i", "sum(k in 0..max { 1, 2 }) { x_k }", "A[min { i, 1 }] * x_i"][rng.gen_range(0..3)];
            (format!("min sum(i in {start}..{end}) {{ {body} }}\ns.t.\n    x_i >= 0 for i in 0..8\nwhere\n    let A = [1, 2]\ndefine\n    x_i as Real(0, 1) for i in 0..8\n"), "blocks-in-range-ends")
        }
        9 => {
            // ragged array literals: elements of different kinds and depths in one array, in every order
            fn ragged(rng: &mut ChaCha8Rng, depth: usize) -> String {
                let n = rng.gen_range(0..4);
                let items: Vec<String> = (0..n)
                    .map(|_| match rng.gen_range(0..if depth == 0 { 5 } else { 8 }) {
                        0 => rng.gen_range(0..9).to_string(),
                        1 => "2.5".to_string(),
                        2 => "\"a\"".to_string(),
                        3 => "true".to_string(),
                        4 => "-1".to_string(),
                        _ => ragged(rng, depth - 1),
                    })
                    .collect();
                format!("[{}]", items.join(", "))
            }
            let a = ragged(rng, 3);
            let b = ragged(rng, 2);
            let use_ = [
                "sum(i in A) { 1 }",
                "len(A)",
                "sum((i, e) in enumerate(A)) { i }",
                "len(union(A, B))",
                "len(difference(A, B)) + len(intersection(B, A))",
                "sum(r in A) { sum(e in r) { 1 } }",
                "sum(e in union(B, A)) { 1 }",
            ][rng.gen_range(0..7)];
            (format!("min x + {use_}\ns.t.\n    x >= 0\nwhere\n    let A = {a}\n    let B = {b}\ndefine\n    x as Real(0, 1)\n"), "ragged-arrays")
        }
        5 => {
            // scoped blocks nested inside the iterator position
            let d = depth.min(40);
            let mut it = "A".to_string();
            for _ in 0..d {
                it = format!("enumerate(sum(i in {it}) {{ 1 }})");
            }
            (format!("min x + sum(i in {it}) {{ 1 }}\ns.t.\n    x >= 0\nwhere\n    let A = [1]\ndefine\n    x as Real(0, 1)\n"), "nested-iterators")
        }
        6 => {
            // single-element scoped blocks can be nested deeply without growing the model
            let d = depth.min(48);
            let mut body = "x".to_string();
            for k in 0..d {
                body = format!("sum(i{k} in 0..1) {{ {body} }}");
            }
            (format!("min {body}\ns.t.\n    x >= 0\ndefine\n    x as Real(0, 1)\n"), "nested-scoped-blocks(single-element)")
        }
        7 => {
            // products of constant sums: linear, but exponential if distributed before folding
            let n = depth.min(60);
            let f = ["(1 + 1)", "(2 - 1)", "(0.5 + 0.5)", "(3 - 1 - 1)"];
            let chain: String = (0..n).map(|_| format!(" * {}", f[rng.gen_range(0..f.len())])).collect();
            (program_for(&format!("(a + 1){chain}")), "product-of-constant-sums")
        }
        8 => {
            // products of sums with variables: not linear, must be rejected quickly
            let n = depth.min(40);
            let v = ["a", "b", "c", "d"];
            let chain: String = (0..n).map(|_| format!(" * ({} + 1)", v[rng.gen_range(0..v.len())])).collect();
            (program_for(&format!("(a + 1){chain}")), "product-of-variable-sums")
        }
        0 => (program_for(&format!("{}a + 2(b){}", "(".repeat(depth), ")".repeat(depth))), "nested-parentheses"),
        1 => (program_for(&format!("{}a{}", "abs { ".repeat(depth), " }".repeat(depth))), "nested-blocks"),
        2 => (format!("min 1\ns.t.\n    1 >= 0\nwhere\n    let A = {}1{}\n", "[".repeat(depth), "]".repeat(depth)), "nested-arrays"),
        3 => {
            let d = depth.min(6);
            let mut body = "x".to_string();
            for k in 0..d {
                body = format!("sum(i{k} in 0..2) {{ {body} }}");
            }
            (format!("min {body}\ns.t.\n    x >= 0\ndefine\n    x as Real(0, 1)\n"), "nested-scoped-blocks(<=6)")
        }
        _ => (program_for(&format!("a{}", " + -a".repeat(depth * 4))), "long-chain"),
    }
}

/// Corpus for the Miri layer: short inputs of every class except the known-bad region.
pub fn miri_corpus(seed: u64, n: usize) -> Vec<String> {
    use rand::SeedableRng;
    let mut rng = ChaCha8Rng::seed_from_u64(seed ^ 0x4d49_5249);
    let mut out = vec![];
    while out.len() < n {
        let text = match rng.gen_range(0..10) {
            0..=2 => valid_program(&mut rng),
            3..=6 => mutate(&valid_program(&mut rng), &mut rng).0,
            7 => noise(&mut rng),
            _ => nested(&mut rng).0,
        };
        // Miri is ~10^4 times slower than native code: short inputs, no large iterations
        if text.len() <= 400 && !large_iteration(&text) && !wide_integer_range(&text) && !text.contains("100000") && !text.contains("4000") {
            out.push(text);
        }
    }
    out
}

fn known_bad(rng: &mut ChaCha8Rng) -> (String, &'static str) {
    match rng.gen_range(0..4) {
        3 => ("min b\ns.t.\n    k0: (b + c) * -3 = -2\ndefine\n    b as IntegerRange(-3, 100000)\n    c as IntegerRange(-2147483647, 2)\n".to_string(), "known-bad"),
        0 => ("min sum(i in 0..20000) { x }\ns.t.\n    x >= 0\ndefine\n    x as Real(0, 1)\n".to_string(), "known-bad"),
        1 => ("min x\ns.t.\n    x >= i for i in 0..200000\ndefine\n    x as Real(0, 1)\n".to_string(), "known-bad"),
        _ => ("min x\ns.t.\n    x >= len(A)\nwhere\n    let A = enumerate(0..9000000)\ndefine\n    x as Real(0, 1)\n".to_string(), "known-bad"),
    }
}

/// The structural precondition of the known resource findings: the input asks for an iteration
/// over at least 5000 elements (an integer literal >= 5000 and a range operator or a range() call).
pub fn large_iteration(input: &str) -> bool {
    let mut best: u128 = 0;
    let mut cur = String::new();
    for c in input.chars().chain(std::iter::once(' ')) {
        if c.is_ascii_digit() {
            cur.push(c);
        } else {
            if !cur.is_empty() && cur.len() <= 30 {
                if let Ok(v) = cur.parse::<u128>() {
                    best = best.max(v);
                }
            }
            cur.clear();
        }
    }
    best >= 5000 && (input.contains("..") || input.contains("range("))
}

/// The structural precondition of the known branch-and-bound finding: an integer variable whose
/// declared range spans at least 10^4 values (an IntegerRange declaration and an integer literal
/// of at least 10000 in the input).
pub fn wide_integer_range(input: &str) -> bool {
    let mut best: u128 = 0;
    let mut cur = String::new();
    for c in input.chars().chain(std::iter::once(' ')) {
        if c.is_ascii_digit() {
            cur.push(c);
        } else {
            if !cur.is_empty() && cur.len() <= 30 {
                if let Ok(v) = cur.parse::<u128>() {
                    best = best.max(v);
                }
            }
            cur.clear();
        }
    }
    best >= 10000 && input.contains("IntegerRange")
}

impl Driver for C18 {
    fn id(&self) -> &'static str {
        "C18"
    }
    fn sandboxed(&self) -> bool {
        true
    }
    fn cpu_budget_s(&self) -> f64 {
        10.0
    }
    fn units(&self, tier: Tier) -> usize {
        tier.pick(16000, 200000)
    }
    fn run_unit(&self, ctx: &Ctx, out: &mut UnitOut, start: usize, only: Option<usize>) {
        let mut rng = unit_rng(ctx, "C18", out.unit);
        for case in 0..20 {
            // one unit in 1000 carries a known-bad input (each costs the whole CPU budget)
            let (text, class): (String, &'static str) = if out.unit % 1000 == 7 && case == 0 {
                known_bad(&mut rng)
            } else {
                match rng.gen_range(0..10) {
                    0 | 1 => (valid_program(&mut rng), "valid"),
                    2..=6 => {
                        let base = valid_program(&mut rng);
                        let (mut t, mut label) = mutate(&base, &mut rng);
                        if rng.gen_bool(0.3) {
                            let (t2, l2) = mutate(&t, &mut rng);
                            t = t2;
                            label = l2;
                        }
                        (t, label)
                    }
                    7 => (noise(&mut rng), "noise"),
                    _ => nested(&mut rng),
                }
            };
            if case < start || only.is_some_and(|o| o != case) {
                continue;
            }
            let mut text = text;
            if text.len() > 4096 {
                let mut cut = 4096;
                while !text.is_char_boundary(cut) {
                    cut -= 1;
                }
                text.truncate(cut);
            }
            out.begin_case(case, &json!({"class": class, "input": text}).to_string());
            let (log, panic) = run_all_stages(&text);
            out.end_case();
            out.eval();
            out.tag(&format!("class:{class}"));
            for (stage, outcome) in &log {
                if outcome.starts_with("failed") {
                    out.violation(
                        &format!("error-rendering-fails({stage})"),
                        &format!("{stage}: {outcome}"),
                        json!({"class": class, "input": text}),
                    );
                } else {
                    out.tag(&format!("{stage}:{}", outcome.split('(').next().unwrap_or("")));
                }
            }
            match panic {
                Some((stage, msg, loc)) => {
                    let norm: String = msg.chars().map(|c| if c.is_ascii_digit() { '#' } else { c }).take(80).collect();
                    out.violation(
                        &format!("panic({stage}) at {loc}"),
                        &format!("{stage} panicked: {msg}"),
                        json!({"class": class, "input": text, "message": norm, "location": loc}),
                    );
                }
                None => {
                    out.nontrivial(hash_str(&text));
                    if out.report.samples.is_empty() && out.unit < 6 {
                        out.sample(json!({"class": class, "input": text, "stages": log}));
                    }
                }
            }
        }
    }
    fn on_crash(&self, c: &Crash) -> Option<(String, String)> {
        let v: Value = serde_json::from_str(&c.desc).ok()?;
        let mut class = v["class"].as_str().unwrap_or("?").to_string();
        if large_iteration(v["input"].as_str().unwrap_or("")) {
            class = "iteration-over->=5000-elements".to_string();
        } else if wide_integer_range(v["input"].as_str().unwrap_or("")) {
            class = "branch-and-bound-over-integer-range->=10000".to_string();
        }
        let class = class.as_str();
        Some((
            format!("{}({class})", c.kind),
            format!("the worker ended with {} while processing an input of class {class}", c.kind),
        ))
    }
    fn rule(&self) -> String {
        "inputs up to 4 KiB: valid programs (G-text, G-data, expression corpus), token-level mutations of them (delete / duplicate / swap a token, numeric extremes around the i32/i64/u64/u128/f64 limits, negation wraps, deep indexes, larger numbers, injected brackets / quotes / non-ASCII symbols, applied once or twice), byte noise and grammar-token noise, nesting up to 64 (parentheses, blocks, arrays, operator chains; two-element scoped blocks up to 6 levels, single-element ones up to 48, scoped blocks inside the iterator position up to 40; products of up to 60 constant sums and of up to 40 sums with variables), and - in one unit out of 1000 - inputs from the known-bad region (aggregations and for-quantified constraints over 20,000 to 9,000,000 elements). Every input goes, in a sacrificial worker with a 10 s CPU budget and a 2 GiB address-space limit, through parse, format (+ re-parse), type_check, transform, model rendering, linearize, linear rendering, LP export, into_standard_form, into_tableau, tableau solve, auto_solver and the rendering of every error (to_string_from_source, trace_from_source, traced_error, Display), each stage under catch_unwind with a panic hook that records message and location. non-trivial = distinct input that passed all reachable stages Further classes: ragged arrays (elements of different kinds and depths), min/max blocks nested up to 64 deep, blocks and scoped blocks inside range ends and indexes.".into()
    }
    fn thresholds(&self, tier: Tier) -> Thresholds {
        let s = tier.pick(10, 120);
        Thresholds {
            min_tags: vec![
                ("class:valid", 4000 * s),
                ("class:noise", 2000 * s),
                ("class:numeric-extreme", 1000 * s),
                ("parse:error", 5000 * s),
                ("transform:error", 1000 * s),
                ("linearize:ok", 3000 * s),
                ("solve:ok", 1500 * s),
                ("tableau-solve:ok", 200 * s),
            ],
            min_nontrivial: 20000 * s,
        }
    }
    fn assumptions(&self) -> Vec<String> {
        vec![
            "'never hangs' is judged by the 10 s CPU budget per input (median cost < 1 ms)".into(),
            "memory: 2 GiB address space per worker (the main deployment target is wasm32)".into(),
        ]
    }
}
