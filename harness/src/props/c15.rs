//! C15 - limits and tolerances never turn into wrong answers.
//!
//! For every model the search is first timed without limits; the time limits of the sweep are
//! fractions of that time (from zero to well beyond it), so the limit fires before the root
//! relaxation, before the first incumbent, in the middle of the search and not at all. Every
//! outcome is judged against the certified exact oracle.
use crate::ast::*;
use crate::gen_lp::*;
use crate::lin::*;
use crate::lp::*;
use crate::rat::*;
use crate::runner::*;
use crate::solve::*;
use num_traits::Signed;
use rand::Rng;
use rand::seq::SliceRandom;
use rand_chacha::ChaCha8Rng;
use rooc::{MilpOptions, SolutionStatus};
use serde_json::{Value, json};
use std::panic::{AssertUnwindSafe, catch_unwind};
use std::time::{Duration, Instant};

pub struct C15;

/// Knapsack / covering style models whose branch and bound needs more than the root node.
pub fn gen_hard(rng: &mut ChaCha8Rng) -> LmSpec {
    let n = rng.gen_range(5..=12);
    let mut vars = vec![];
    let mut ub = vec![];
    for i in 0..n {
        let t = match rng.gen_range(0..10) {
            0..=5 => {
                ub.push(1.0);
                VSpec::Bool
            }
            6..=8 => {
                let k = rng.gen_range(2..=9);
                ub.push(k as f64);
                VSpec::Int(0, k)
            }
            _ => {
                let k = rng.gen_range(1..=4) as f64;
                ub.push(k);
                VSpec::NonNeg(0.0, Some(k))
            }
        };
        vars.push((format!("x_{i}"), t));
    }
    let covering = rng.gen_bool(0.35);
    let w: Vec<f64> = (0..n).map(|_| rng.gen_range(3..=40) as f64 + if rng.gen_bool(0.15) { 0.5 } else { 0.0 }).collect();
    let mut rows = vec![];
    let m = rng.gen_range(1..=3);
    for i in 0..m {
        let a: Vec<f64> = (0..n)
            .map(|j| if i == 0 { w[j] } else if rng.gen_bool(0.25) { 0.0 } else { rng.gen_range(2..=30) as f64 })
            .collect();
        let total: f64 = a.iter().zip(&ub).map(|(a, u)| a * u).sum();
        let frac = [0.25, 0.35, 0.45, 0.55, 0.65][rng.gen_range(0..5)];
        let b = (total * frac).floor() + if rng.gen_bool(0.2) { 0.5 } else { 0.0 };
        rows.push(RowSpec { name: if rng.gen_bool(0.5) { format!("cap{i}") } else { String::new() }, a, rel: if covering { ">=" } else { "<=" }.to_string(), b });
    }
    if rng.gen_bool(0.3) {
        // an equality with small pairwise-different coefficients; sometimes unreachable
        let a: Vec<f64> = (0..n).map(|_| [0.0, 2.0, 3.0, 5.0, 7.0, 11.0, 4.0, 6.0][rng.gen_range(0..8)]).collect();
        let point: Vec<f64> = vars
            .iter()
            .zip(&ub)
            .map(|((_, t), u)| match t {
                VSpec::Bool | VSpec::Int(..) => rng.gen_range(0..=(*u as i64)) as f64,
                _ => 0.0,
            })
            .collect();
        let mut b: f64 = a.iter().zip(&point).map(|(a, x)| a * x).sum();
        if rng.gen_bool(0.2) {
            b += 0.5;
        }
        rows.push(RowSpec { name: "eq".into(), a, rel: "=".into(), b });
    }
    let mut obj: Vec<f64> = w.iter().map(|w| w + rng.gen_range(-3..=9) as f64).collect();
    if rng.gen_bool(0.15) {
        // one dominant coefficient: differences between good solutions are tiny relative to the objective
        let j = rng.gen_range(0..n);
        obj[j] *= [1e4, 1e5][rng.gen_range(0..2)];
    }
    // objectives in thousandths: every relative quantity is then far below its absolute namesake
    let small = rng.gen_bool(0.15);
    if small {
        for c in obj.iter_mut() {
            *c *= 0.001;
        }
    }
    LmSpec {
        vars,
        rows,
        obj,
        offset: if rng.gen_bool(0.2) && !small { 10.0 } else { 0.0 },
        sense: if covering { "min" } else { "max" }.to_string(),
    }
}

/// The same linear model as a harness AST (for the builder door).
fn spec_to_m(spec: &LmSpec) -> M {
    let lin = |a: &[f64]| -> E {
        let mut e: Option<E> = None;
        for (j, c) in a.iter().enumerate() {
            if *c == 0.0 {
                continue;
            }
            let t = E::mul(E::Num(*c), E::Var(j));
            e = Some(match e {
                None => t,
                Some(p) => E::add(p, t),
            });
        }
        e.unwrap_or(E::Num(0.0))
    };
    M {
        names: spec.vars.iter().map(|(n, _)| n.clone()).collect(),
        types: spec
            .vars
            .iter()
            .map(|(_, t)| match t {
                VSpec::Bool => VT::Bool,
                VSpec::Int(a, b) => VT::Int(*a, *b),
                VSpec::Real(a, b) => VT::Real(a.unwrap_or(f64::NEG_INFINITY), b.unwrap_or(f64::INFINITY)),
                VSpec::NonNeg(a, b) => VT::NonNeg(*a, b.unwrap_or(f64::INFINITY)),
            })
            .collect(),
        cons: spec
            .rows
            .iter()
            .map(|r| Con {
                name: if r.name.is_empty() { None } else { Some(r.name.clone()) },
                kind: CKind::Cmp(
                    lin(&r.a),
                    match r.rel.as_str() {
                        "<=" => Cmp::Le,
                        ">=" => Cmp::Ge,
                        _ => Cmp::Eq,
                    },
                    E::Num(r.b),
                ),
            })
            .collect(),
        sense: match spec.sense.as_str() {
            "min" => Sense::Min,
            "max" => Sense::Max,
            _ => Sense::Satisfy,
        },
        obj: if spec.offset != 0.0 { E::add(lin(&spec.obj), E::Num(spec.offset)) } else { lin(&spec.obj) },
    }
}

fn builder_model_infeasible(spec: &LmSpec) -> bool {
    let (mb, _) = spec_to_m(spec).to_builder();
    let Ok(Ok(lm)) = catch_unwind(AssertUnwindSafe(|| mb.linearize())) else { return false };
    let Ok(xl) = XLin::from_rooc(&lm) else { return false };
    // the second case is the known C05 finding (MicroLP calls a near-degenerate box infeasible)
    crate::props::c04::near_degenerate_interval(&LmSpec::from_rooc(&lm)) || matches!(solve_milp(&xl.to_lp(), 20_000), Ok((LpAnswer::Infeasible, _)))
}

#[derive(Debug, Clone, Copy, PartialEq)]
enum Door {
    Function,
    SolverObject,
    Builder,
}

#[derive(Debug, Clone, Copy)]
struct Setting {
    door: Door,
    /// None = no limit; Some(f) = f times the unlimited solve time; f64::INFINITY = Duration::MAX
    limit: Option<f64>,
    gap: Option<f64>,
    /// a solver object that was configured once before (gap 0.9, limit one hour) and is configured again:
    /// the last setting counts
    reconfigured: bool,
}

const FRACTIONS: [f64; 13] = [0.0, 0.002, 0.01, 0.03, 0.08, 0.15, 0.25, 0.4, 0.6, 0.85, 1.2, 3.0, 50.0];
const GAPS: [Option<f64>; 8] = [None, Some(0.0), Some(-0.0), Some(1e-9), Some(0.01), Some(0.1), Some(0.5), Some(10.0)];
const BAD_GAPS: [f64; 5] = [-0.1, f64::NAN, f64::INFINITY, f64::NEG_INFINITY, -1e-300];

fn gap_valid(g: Option<f64>) -> bool {
    g.is_none_or(|g| g.is_finite() && g >= 0.0)
}

fn run_setting(spec: &LmSpec, lm: &rooc::LinearModel, s: &Setting, base: Duration) -> Outcome {
    let limit = s.limit.map(|f| {
        if f.is_infinite() {
            Duration::MAX
        } else {
            Duration::from_nanos((base.as_nanos() as f64 * f) as u64)
        }
    });
    let r = catch_unwind(AssertUnwindSafe(|| match s.door {
        Door::Function => rooc::solve_milp_lp_problem_with(lm, &MilpOptions { mip_gap: s.gap, time_limit: limit }).map(from_milp_pub),
        Door::SolverObject => {
            use rooc::Solver;
            let mut solver = rooc::Microlp::new();
            if s.reconfigured {
                if s.gap.is_some() {
                    solver = solver.with_mip_gap(0.9);
                }
                if limit.is_some() {
                    solver = solver.with_time_limit(Duration::from_secs(3600));
                }
            }
            if let Some(g) = s.gap {
                solver = solver.with_mip_gap(g);
            }
            if let Some(l) = limit {
                solver = solver.with_time_limit(l);
            }
            solver.solve(lm).map(from_milp_pub)
        }
        Door::Builder => {
            let (mb, handles) = spec_to_m(spec).to_builder();
            let mut solver = rooc::Microlp::new();
            if s.reconfigured {
                if s.gap.is_some() {
                    solver = solver.with_mip_gap(0.9);
                }
                if limit.is_some() {
                    solver = solver.with_time_limit(Duration::from_secs(3600));
                }
            }
            if let Some(g) = s.gap {
                solver = solver.with_mip_gap(g);
            }
            if let Some(l) = limit {
                solver = solver.with_time_limit(l);
            }
            match mb.solve_with(solver) {
                Ok(bs) => {
                    let mut sol = from_milp_pub(bs.solution().clone());
                    // what the builder-level accessors say
                    sol.status = bs.status();
                    sol.value = bs.value();
                    for (j, h) in handles.iter().enumerate() {
                        if let (Some(v), Some(k)) = (bs.numeric_value(*h), sol.names.iter().position(|n| *n == spec.vars[j].0)) {
                            sol.values[k] = v;
                        }
                    }
                    Ok(sol)
                }
                Err(rooc::BuilderError::Solver(e)) => Err(e),
                Err(rooc::BuilderError::Linearization(e)) => Err(rooc::SolverError::Other(format!("LINEARIZATION: {e}"))),
            }
        }
    }));
    match r {
        Ok(Ok(s)) => Outcome::Solved(s),
        Ok(Err(e)) => map_err(e),
        Err(p) => Outcome::Panicked(crate::compile::panic_msg(p)),
    }
}

fn limit_class(s: &Setting) -> &'static str {
    match s.limit {
        None => "no-limit",
        Some(f) if f == 0.0 => "limit=0",
        Some(f) if f < 0.05 => "limit<5%",
        Some(f) if f < 0.5 => "limit<50%",
        Some(f) if f < 1.0 => "limit<100%",
        Some(f) if f.is_infinite() => "limit=Duration::MAX",
        Some(_) => "limit>=100%",
    }
}

impl Driver for C15 {
    fn id(&self) -> &'static str {
        "C15"
    }
    fn sandboxed(&self) -> bool {
        true
    }
    fn cpu_budget_s(&self) -> f64 {
        10.0
    }
    fn units(&self, tier: Tier) -> usize {
        tier.pick(640, 16000)
    }
    fn run_unit(&self, ctx: &Ctx, out: &mut UnitOut, start: usize, only: Option<usize>) {
        let mut rng = unit_rng(ctx, "C15", out.unit);
        const PER_MODEL: usize = 64;
        for mi in 0..4 {
            let (spec, origin) = if mi < 3 {
                (gen_hard(&mut rng), "knapsack-or-cover")
            } else {
                (gen_lm(&mut rng, &LpGenOpts { max_vars: 6, max_rows: 6, moderate_coeffs: true, ..Default::default() }), "g-lp")
            };
            // settings are drawn before anything is skipped so that case numbers are stable
            let mut settings: Vec<Setting> = vec![Setting { door: Door::Function, limit: None, gap: None, reconfigured: false }];
            while settings.len() < 50 {
                let door = [Door::Function, Door::Function, Door::SolverObject, Door::Builder][rng.gen_range(0..4)];
                let limit = if rng.gen_bool(0.12) { None } else { Some(*FRACTIONS.choose(&mut rng).unwrap()) };
                let gap = *GAPS.choose(&mut rng).unwrap();
                let reconfigured = door != Door::Function && rng.gen_bool(0.3);
                settings.push(Setting { door, limit, gap, reconfigured });
            }
            for g in BAD_GAPS {
                let door = [Door::Function, Door::SolverObject, Door::Builder][rng.gen_range(0..3)];
                let limit = if rng.gen_bool(0.5) { None } else { Some(*FRACTIONS.choose(&mut rng).unwrap()) };
                let reconfigured = door != Door::Function && rng.gen_bool(0.5);
                settings.push(Setting { door, limit, gap: Some(g), reconfigured });
            }
            settings.push(Setting { door: Door::Function, limit: Some(f64::INFINITY), gap: None, reconfigured: false });
            settings.push(Setting { door: Door::Builder, limit: Some(f64::INFINITY), gap: Some(0.01), reconfigured: true });
            assert!(settings.len() <= PER_MODEL);
            let first = mi * PER_MODEL;
            if first + settings.len() <= start || only.is_some_and(|o| o < first || o >= first + settings.len()) {
                continue;
            }
            let lm = spec.to_rooc();
            let Ok(xl) = XLin::from_rooc(&lm) else {
                out.inconclusive("model with non-finite numbers");
                continue;
            };
            let lp = xl.to_lp();
            // unlimited solve time (median of 3), inside the CPU budget
            out.begin_case(first, &json!({"model": spec, "setting": "timing run without limits"}).to_string());
            let mut times = vec![];
            // the measurement itself is bounded (2 s): a search that needs longer is not swept
            let probe = catch_unwind(AssertUnwindSafe(|| rooc::solve_milp_lp_problem_with(&lm, &MilpOptions { mip_gap: None, time_limit: Some(Duration::from_secs(2)) })));
            let too_slow = match &probe {
                Ok(Ok(s)) => s.status() != SolutionStatus::Optimal,
                Ok(Err(rooc::SolverError::LimitReached)) => true,
                _ => false,
            };
            if too_slow {
                out.end_case();
                out.tag("unlimited-solve-exceeds-2s:model-skipped");
                continue;
            }
            for _ in 0..3 {
                let t0 = Instant::now();
                let _ = run_setting(&spec, &lm, &settings[0], Duration::ZERO);
                times.push(t0.elapsed());
            }
            out.end_case();
            times.sort();
            let base = times[1];
            let truth = match solve_milp(&lp, 20_000) {
                Ok((a, _)) => a,
                Err(e) => {
                    out.tag("oracle-undecided");
                    out.inconclusive(&format!("oracle: {e}"));
                    continue;
                }
            };
            // a float solver cannot be judged against an exact answer that lives at astronomically large
            // values or on a ray whose slope is at rounding level (-0.3 is not exactly -3/10)
            let huge = |x: &Vec<Q>| x.iter().any(|v| v.abs() > qi(1_000_000));
            match &truth {
                LpAnswer::Optimal { x, .. } | LpAnswer::Unbounded { x, .. } if huge(x) => {
                    out.tag("ill-conditioned-model-skipped");
                    continue;
                }
                _ => {}
            }
            if let LpAnswer::Unbounded { ray, .. } = &truth {
                let (mut slope, mut cn, mut dn) = (zero(), zero(), zero());
                for (c, d) in lp.c.iter().zip(ray) {
                    slope += c * d;
                    cn += c.abs();
                    dn += d.abs();
                }
                if slope.abs() <= pow10_neg(9) * &cn * &dn {
                    out.tag("ill-conditioned-model-skipped");
                    continue;
                }
            }
            let tkind = truth.kind();
            out.tag(&format!("truth:{tkind}"));
            out.tag(&format!("origin:{origin}"));
            out.tag(match base.as_micros() {
                0..=49 => "unlimited-solve<50us",
                50..=499 => "unlimited-solve<500us",
                500..=4999 => "unlimited-solve<5ms",
                _ => "unlimited-solve>=5ms",
            });
            let tol = tol6();
            for (si, s) in settings.iter().enumerate() {
                let this = first + si;
                if this < start || only.is_some_and(|o| o != this) {
                    continue;
                }
                // timing decides where the limit lands: a replay repeats the setting
                let repeats = if only.is_some() { 300 } else { 1 };
                for _ in 0..repeats {
                    let before = out.violations_emitted;
                    let desc = json!({"model": spec, "door": format!("{:?}", s.door), "limit_fraction": s.limit.map(|f| if f.is_infinite() { -1.0 } else { f }),
                        "gap": s.gap.map(|g| format!("{g}")), "unlimited_solve_ns": base.as_nanos() as u64});
                    out.begin_case(this, &desc.to_string());
                    let outcome = run_setting(&spec, &lm, s, base);
                    out.end_case();
                    out.eval();
                    let lc = limit_class(s);
                    let detail = |extra: Value| json!({"setting": desc, "model_text": lm.to_string(), "oracle": tkind,
                        "oracle_value": match &truth { LpAnswer::Optimal{value,..} => Some(show(value)), _ => None }, "observed": extra});
                    if !gap_valid(s.gap) {
                        match &outcome {
                            Outcome::Solved(sol) => out.violation(
                                "invalid-gap-accepted",
                                &format!("mip_gap = {:?} was accepted and a solution returned", s.gap),
                                detail(sol_json(sol)),
                            ),
                            Outcome::Panicked(m) => out.violation("panic(invalid-gap)", &format!("panic: {m}"), detail(json!(m))),
                            other => {
                                out.tag("invalid-gap-rejected");
                                out.tag(&format!("invalid-gap-rejected:{}", other.kind()));
                                out.nontrivial(hash_str(&format!("{:?}|{}", s, spec.shape_hash())));
                            }
                        }
                        continue;
                    }
                    match &outcome {
                        Outcome::Solved(sol) => {
                            let status = sol.status;
                            out.tag(&format!("{lc}:solution:{status:?}"));
                            // 1. a returned solution is feasible, whatever the label
                            let check_rows = s.door != Door::Builder;
                            match certify_solution(&xl, &lm, sol, check_rows) {
                                Ok(_) => {}
                                Err((class, what)) => {
                                    if tkind != "optimal" && class.starts_with("tolerance-level") {
                                        out.inconclusive("tolerance-level");
                                    } else {
                                        let sig = format!("returned-solution-not-feasible({};label={status:?};{})", if s.limit.is_some() { "time-limit" } else { "no-limit" }, class.split('(').next().unwrap_or(""));
                                        out.violation(&sig, &format!("the call returned a solution labelled {status:?} that fails its certificate: {what}"), detail(sol_json(sol)));
                                    }
                                    continue;
                                }
                            }
                            // 2. the label
                            match (&truth, status) {
                                (LpAnswer::Optimal { value, .. }, SolutionStatus::Optimal) => {
                                    let got = q(sol.value).unwrap();
                                    let gap = s.gap.unwrap_or(0.0);
                                    // relative to the larger of the returned and the true objective, with and without
                                    // the constant offset (the back end does not see the offset)
                                    let off = q(lm.objective_offset()).unwrap_or_else(zero);
                                    // (no floor of 1: the gap is relative, for an objective of 0.2 a gap of 0.01 is 0.002)
                                    let mut denom = got.abs();
                                    for v in [value.abs(), (&got - &off).abs(), (value - &off).abs()] {
                                        denom = qmax(&denom, &v);
                                    }
                                    let allowed = q(gap).unwrap() * denom + &tol * qmax(&one(), &value.abs());
                                    let worse_by = if lp.maximize { value - &got } else { &got - value };
                                    if xl.sense == rooc::OptimizationType::Satisfy || worse_by <= allowed {
                                        out.tag("optimal-label-within-gap");
                                        out.tag(&format!("{lc}:optimal-label-within-gap"));
                                        if worse_by > &tol * qmax(&one(), &value.abs()) {
                                            out.tag("optimal-label:suboptimal-but-within-requested-gap");
                                        }
                                        out.nontrivial(hash_str(&format!("{:?}|{}", s, spec.shape_hash())));
                                        if out.report.samples.is_empty() && out.unit < 4 && s.limit.is_some() {
                                            out.sample(json!({"setting": desc, "model": lm.to_string(), "returned_value": sol.value, "status": format!("{status:?}"), "certified_optimum": show(value)}));
                                        }
                                    } else {
                                        out.violation(
                                            &format!("labelled-optimal-outside-gap({})", if s.limit.is_some() { "time-limit" } else { "no-limit" }),
                                            &format!("status Optimal with objective {} but the certified optimum is {} (requested gap {:?})", sol.value, show(value), s.gap),
                                            detail(sol_json(sol)),
                                        );
                                    }
                                }
                                (LpAnswer::Optimal { .. }, SolutionStatus::Feasible) => {
                                    out.tag("feasible-label");
                                    out.tag(&format!("{lc}:feasible-label"));
                                    out.nontrivial(hash_str(&format!("{:?}|{}", s, spec.shape_hash())));
                                }
                                (LpAnswer::Unbounded { .. }, SolutionStatus::Feasible) => out.tag("feasible-label-on-unbounded"),
                                (LpAnswer::Unbounded { .. }, SolutionStatus::Optimal) => out.violation(
                                    "labelled-optimal-on-unbounded",
                                    "status Optimal although the model is unbounded",
                                    detail(sol_json(sol)),
                                ),
                                (LpAnswer::Infeasible, _) => out.inconclusive("solution within tolerance of an exactly infeasible model"),
                                (_, other) => out.violation(&format!("solution-with-status-{other:?}"), "a solution object carries a failure status", detail(sol_json(sol))),
                            }
                        }
                        Outcome::Infeasible => {
                            if tkind == "infeasible" {
                                out.tag(&format!("{lc}:Infeasible-agrees"));
                            } else if s.door == Door::Builder && builder_model_infeasible(&spec) {
                                // the builder compiles first; bounds derived in floating point can close a
                                // feasible set that is a single point (equality-dense rows). That is a
                                // question for C01, not for the limits under test here
                                out.inconclusive("builder door: the compiled model is exactly infeasible or has a near-degenerate derived interval (C01 / C05 matter)");
                            } else {
                                out.violation(
                                    &format!("Infeasible-on-{tkind}({})", if s.limit.is_some() { "time-limit" } else { "no-limit" }),
                                    &format!("the call reports Infeasible but the model is {tkind}"),
                                    detail(json!("Infeasible")),
                                );
                            }
                        }
                        Outcome::Unbounded => {
                            if tkind == "unbounded" {
                                out.tag(&format!("{lc}:Unbounded-agrees"));
                            } else if solve_milp(&relax(&lp, &tol), 20_000).ok().map(|(a, _)| a.kind()) == Some("unbounded") {
                                // exact arithmetic vs 1e-6 feasibility: the model is unbounded once its rows
                                // are relaxed by the solver's tolerance
                                out.inconclusive("verdict differs only within the 1e-6 tolerance band");
                            } else {
                                out.violation(
                                    &format!("Unbounded-on-{tkind}({})", if s.limit.is_some() { "time-limit" } else { "no-limit" }),
                                    &format!("the call reports Unbounded but the model is {tkind}"),
                                    detail(json!("Unbounded")),
                                );
                            }
                        }
                        Outcome::Failed(kind, msg) => {
                            if msg.starts_with("LINEARIZATION") {
                                out.tag("builder:linearization-error");
                            } else if s.limit.is_some() && !s.limit.unwrap().is_infinite() {
                                // stopped before a feasible point was known: an error is the required answer
                                out.tag("limit-hit:error");
                                out.tag(&format!("{lc}:error({kind})"));
                                out.nontrivial(hash_str(&format!("{:?}|{}", s, spec.shape_hash())));
                            } else {
                                out.violation(
                                    &format!("error-without-effective-limit({kind})"),
                                    &format!("error kind {kind} (\"{msg}\") although no limit could have fired; the model is {tkind}"),
                                    detail(json!({"error_kind": kind, "message": msg})),
                                );
                            }
                        }
                        Outcome::Panicked(msg) => {
                            let norm: String = msg.chars().map(|c| if c.is_ascii_digit() { '#' } else { c }).take(60).collect();
                            out.violation(&format!("panic({lc}): {norm}"), &format!("panic: {msg}"), detail(json!(msg)));
                        }
                        Outcome::NotAccepted(k) => out.tag(&format!("not-accepted({k})")),
                    }
                    if out.violations_emitted > before {
                        break;
                    }
                }
            }
        }
    }
    fn on_crash(&self, c: &Crash) -> Option<(String, String)> {
        let v: Value = serde_json::from_str(&c.desc).ok()?;
        let lim = if v["limit_fraction"].is_null() { "no-limit" } else { "time-limit" };
        Some((format!("never-returns({};{lim})", c.kind), format!("the call did not return: worker ended with {} ({lim})", c.kind)))
    }
    fn rule(&self) -> String {
        "small MILP models (knapsack / covering models of 5-12 Boolean, integer and bounded continuous variables with 1-3 capacity rows and an optional equality, which need a real branch-and-bound search; 15% with one objective coefficient multiplied by 1e4 or 1e5; plus G-lp models incl. infeasible, unbounded and continuous ones). Each model is first solved without limits (median of three timings); then ~57 settings: door (solve_milp_lp_problem_with, the Microlp solver object, ModelBuilder::solve_with(Microlp..) with handle read-back) x time limit (none, 0, 0.2%..85% of the unlimited time, 1.2x..50x, Duration::MAX) x MIP gap (none, 0, -0, 1e-9, 0.01, 0.1, 0.5, 10; invalid: -0.1, NaN, +inf, -inf, -1e-300); a third of the solver objects were configured once before (gap 0.9, limit one hour) and are configured again - the last setting counts. Oracle per outcome: a returned solution must pass the exact certificate (bounds, integrality, rows within 1e-6, value = c.x); label Optimal requires the objective within gap*max(|returned|,|optimum|, the same without the offset) + 1e-6 of the certified exact optimum; models whose exact answer lies beyond 1e6 or on a ray with rounding-level slope are skipped; label Feasible only requires feasibility; Infeasible/Unbounded must match the certified verdict; any other error is accepted only when a finite time limit was set; invalid gaps must give an error. A replay repeats the recorded setting up to 300 times because the landing point of a time limit is timing dependent. non-trivial = distinct (model, setting) judged".into()
    }
    fn thresholds(&self, tier: Tier) -> Thresholds {
        let s = tier.pick(1, 25);
        Thresholds {
            min_tags: vec![
                ("truth:optimal", 1500 * s),
                ("truth:infeasible", 100 * s),
                ("optimal-label-within-gap", 20000 * s),
                ("limit-hit:error", 3000 * s),
                ("feasible-label", 300 * s),
                ("invalid-gap-rejected", 5000 * s),
                ("limit=0:error(LimitReached)", 1000 * s),
                ("optimal-label:suboptimal-but-within-requested-gap", 100 * s),
                ("limit=Duration::MAX:optimal-label-within-gap", 1000 * s),
            ],
            min_nontrivial: 30000 * s,
        }
    }
    fn assumptions(&self) -> Vec<String> {
        vec![
            "where a time limit lands is timing dependent; coverage of 'interrupted before incumbent' and 'interrupted with incumbent' is reported as observed label counts, not guaranteed per model".into(),
            "relative gap is judged generously: gap * max(|returned objective|, |optimum|, each with and without the constant offset) plus the 1e-6 tolerance".into(),
        ]
    }
}
