//! C11 - formatting preserves meaning and is idempotent.
use crate::ast::*;
use crate::exprtext::*;
use crate::gen_model::*;
use crate::props::c09::{names, program_for, random_tokens};
use crate::props::c10::from_exp;
use crate::props::c12::same_linear_model;
use crate::rat::*;
use crate::runner::*;
use crate::text::*;
use indexmap::IndexMap;
use rand::Rng;
use rand_chacha::ChaCha8Rng;
use rooc::RoocParser;
use rooc::model_transformer::Model;
use serde_json::{Value, json};

pub struct C11;

fn transform(text: &str) -> Result<Model, String> {
    match std::panic::catch_unwind(|| RoocParser::new(text.to_string()).parse_and_transform(vec![], &IndexMap::new())) {
        Ok(r) => r,
        Err(_) => Err("panic".into()),
    }
}

fn type_check(text: &str) -> Result<(), String> {
    match std::panic::catch_unwind(|| RoocParser::new(text.to_string()).type_check(&vec![], &IndexMap::new())) {
        Ok(r) => r,
        Err(_) => Err("panic".into()),
    }
}

fn format_text(text: &str) -> Option<Result<String, String>> {
    match std::panic::catch_unwind(|| RoocParser::new(text.to_string()).format()) {
        Ok(Ok(s)) => Some(Ok(s)),
        Ok(Err(e)) => Some(Err(e.to_string_from_source(text))),
        Err(_) => None,
    }
}

fn first_line(e: &str) -> String {
    e.lines().find(|l| l.contains('[')).unwrap_or(e.lines().next().unwrap_or("")).trim().to_string()
}

/// Compares the models compiled from the original and from the formatted text by meaning.
fn same_model(a: &Model, b_: &Model, rng: &mut ChaCha8Rng) -> Result<(), (String, String)> {
    let names_a: Vec<String> = a.domain().keys().cloned().collect();
    let names_b: Vec<String> = b_.domain().keys().cloned().collect();
    if names_a != names_b {
        return Err(("declarations-differ".into(), format!("declared variables {:?} became {:?}", names_a, names_b)));
    }
    for n in &names_a {
        let (ta, tb) = (a.domain()[n].get_type(), b_.domain()[n].get_type());
        if ta != tb {
            return Err(("declarations-differ".into(), format!("{n}: {ta} became {tb}")));
        }
    }
    if a.objective().objective_type != b_.objective().objective_type {
        return Err(("objective-sense-differs".into(), "objective sense changed".into()));
    }
    if a.constraints().len() != b_.constraints().len() {
        return Err(("constraint-count-differs".into(), format!("{} constraints became {}", a.constraints().len(), b_.constraints().len())));
    }
    let mut pairs: Vec<(String, &rooc::model_transformer::Exp, &rooc::model_transformer::Exp)> = vec![("objective".into(), &a.objective().rhs, &b_.objective().rhs)];
    for (i, (ca, cb)) in a.constraints().iter().zip(b_.constraints()).enumerate() {
        if ca.name() != cb.name() || ca.constraint_type() != cb.constraint_type() || ca.is_logic_assertion() != cb.is_logic_assertion() {
            return Err((
                "constraint-header-differs".into(),
                format!("constraint {i}: name/relation '{}' {} became '{}' {}", ca.name(), ca.constraint_type(), cb.name(), cb.constraint_type()),
            ));
        }
        pairs.push((format!("constraint {i} lhs"), ca.lhs(), cb.lhs()));
        pairs.push((format!("constraint {i} rhs"), ca.rhs(), cb.rhs()));
    }
    let n = names_a.len();
    let points: Vec<Vec<Q>> = (0..24)
        .map(|k| (0..n).map(|_| if k < 8 { qi(rng.gen_range(0..2)) } else { qi(rng.gen_range(0..4)) }).collect())
        .collect();
    for (what, ea, eb) in pairs {
        let (Some(xa), Some(xb)) = (from_exp(ea, &names_a), from_exp(eb, &names_a)) else { continue };
        for p in &points {
            match (xa.eval(p), xb.eval(p)) {
                (Ok(x), Ok(y)) if x == y => {}
                (Err(_), Err(_)) => {}
                (x, y) => {
                    return Err((
                        "expression-meaning-differs".into(),
                        format!("{what}: '{}' became '{}'; values {:?} vs {:?}", xa.show(&names_a), xb.show(&names_a), x.map(|v| show(&v)), y.map(|v| show(&v))),
                    ));
                }
            }
        }
    }
    Ok(())
}

/// The monitor for one source text. Err((signature, explanation, detail)).
pub fn check_format(text: &str, rng: &mut ChaCha8Rng, out: &mut UnitOut) -> Result<bool, (String, String, Value)> {
    let Some(fmt) = format_text(text) else {
        out.inconclusive("panic in format (C18's concern)");
        return Ok(false);
    };
    let formatted = match fmt {
        Ok(f) => f,
        Err(_) => {
            out.tag("source-does-not-parse");
            return Ok(false);
        }
    };
    let detail = |extra: Value| json!({"original": text, "formatted": formatted, "detail": extra});
    // the formatted text parses and formats to itself
    let again = match format_text(&formatted) {
        Some(Ok(f)) => f,
        Some(Err(e)) => return Err(("formatted-text-does-not-parse".into(), first_line(&e), detail(json!(e)))),
        None => return Ok(false),
    };
    if again != formatted {
        return Err(("format-not-idempotent".into(), "format(format(T)) differs from format(T)".into(), detail(json!({"second": again}))));
    }
    out.tag("formats-to-itself");
    // type check and transform behave alike
    let (tc_a, tc_b) = (type_check(text), type_check(&formatted));
    if tc_a.is_ok() != tc_b.is_ok() {
        return Err((
            format!("type-check-outcome-differs({}->{})", if tc_a.is_ok() { "ok" } else { "rejected" }, if tc_b.is_ok() { "ok" } else { "rejected" }),
            format!("type check: {:?} before, {:?} after formatting", tc_a.as_ref().err().map(|e| first_line(e)), tc_b.as_ref().err().map(|e| first_line(e))),
            detail(Value::Null),
        ));
    }
    let (ma, mb) = (transform(text), transform(&formatted));
    match (ma, mb) {
        (Ok(a), Ok(b_)) => {
            same_model(&a, &b_, rng).map_err(|(s, w)| (s, w, detail(Value::Null)))?;
            out.tag("same-model");
            let la = std::panic::catch_unwind(std::panic::AssertUnwindSafe(|| rooc::Linearizer::linearize(a)));
            let lb = std::panic::catch_unwind(std::panic::AssertUnwindSafe(|| rooc::Linearizer::linearize(b_)));
            if let (Ok(Ok(la)), Ok(Ok(lb))) = (&la, &lb) {
                match same_linear_model(la, lb) {
                    Ok(_) => out.tag("same-linear-model"),
                    Err((s, w)) => {
                        // harmless re-association can change what bound propagation finds; the expression
                        // comparison above already established equal meaning
                        out.tag("linear-models-differ-structurally(meaning equal)");
                        let _ = (s, w);
                    }
                }
            } else if let (Ok(ra), Ok(rb)) = (&la, &lb) {
                if ra.is_ok() != rb.is_ok() {
                    out.tag("linearization-outcome-differs(meaning equal)");
                }
            }
            Ok(true)
        }
        (Err(_), Err(_)) => {
            out.tag("both-rejected-by-transform");
            Ok(false)
        }
        (Ok(_), Err(e)) => Err(("formatted-text-fails-transform".into(), first_line(&e), detail(json!(e)))),
        (Err(e), Ok(_)) => Err(("formatting-makes-invalid-program-valid".into(), first_line(&e), detail(json!(e)))),
    }
}

/// Programs for the exhaustive (parent, child, side) sweep.
fn triple_program(parent: Bop, child: Bop, right: bool, symbols: bool) -> (String, String) {
    let nm = names();
    let toks: Vec<Tok> = if right {
        vec![Tok::Var(0), Tok::Op(parent), Tok::LPar, Tok::Var(1), Tok::Op(child), Tok::Var(2), Tok::RPar]
    } else {
        vec![Tok::LPar, Tok::Var(0), Tok::Op(child), Tok::Var(1), Tok::RPar, Tok::Op(parent), Tok::Var(2)]
    };
    (program_for(&render(&toks, &nm, symbols)), format!("parent={},child={},side={}", parent.name(), child.name(), if right { "right" } else { "left" }))
}

fn unary_programs() -> Vec<(String, String)> {
    let exprs = [
        ("-(a + b)", "neg-over-Add"),
        ("-(a - b)", "neg-over-Sub"),
        ("-(a * b)", "neg-over-Mul"),
        ("-(-3)", "neg-over-negative-constant"),
        ("a - -3", "sub-negative-constant"),
        ("a * -3", "mul-negative-constant"),
        ("not (a and b)", "not-over-And"),
        ("not (a or b)", "not-over-Or"),
        ("not (a implies b)", "not-over-Implies"),
        ("!(a iff b)", "not-over-Iff"),
        ("-(a)", "neg-over-parenthesised-leaf"),
        ("a / 2b", "div-by-implicit-product"),
        ("a / (2b)", "div-by-parenthesised-implicit-product"),
        ("2(a + b)", "implicit-product-with-sum"),
        ("(a)(b)c", "implicit-product-of-parentheses"),
        ("a - (2b)", "sub-implicit-product"),
        ("-2a", "neg-implicit-product"),
        ("abs{ a - (b - c) }", "block-with-right-nested-sub"),
        ("min{ a / (b * c), a - (b + c) }", "block-with-right-nested-div"),
        ("(a + b) * c", "Mul-over-left-Add"),
        ("a * (b + c)", "Mul-over-right-Add"),
    ];
    exprs.iter().map(|(e, l)| (program_for(e), format!("unary/{l}"))).collect()
}

impl Driver for C11 {
    fn id(&self) -> &'static str {
        "C11"
    }
    fn units(&self, tier: Tier) -> usize {
        tier.pick(400, 40000)
    }
    fn run_unit(&self, ctx: &Ctx, out: &mut UnitOut, _start: usize, only: Option<usize>) {
        let mut rng = unit_rng(ctx, "C11", out.unit);
        if out.unit == 0 {
            // exhaustive: every (parent, child, side) triple in both spellings, plus the unary list
            let mut case = 0;
            let mut progs: Vec<(String, String)> = vec![];
            for parent in BOPS {
                for child in BOPS {
                    for right in [false, true] {
                        for symbols in [false, true] {
                            progs.push(triple_program(parent, child, right, symbols));
                        }
                    }
                }
            }
            progs.extend(unary_programs());
            for (text, label) in progs {
                let this = case;
                case += 1;
                if only.is_some_and(|o| o != this) {
                    continue;
                }
                out.case = this;
                out.eval();
                match check_format(&text, &mut rng, out) {
                    Ok(true) => {
                        out.tag("triple-preserved");
                        out.nontrivial(hash_str(&text));
                    }
                    Ok(false) => {}
                    Err((sig, what, detail)) => {
                        let sig = if sig == "expression-meaning-differs" { format!("paren-drop({label})") } else { format!("{sig}({label})") };
                        out.violation(&sig, &what, detail)
                    }
                }
            }
            out.sample(json!({"original": triple_program(Bop::Sub, Bop::Add, true, false).0}));
            return;
        }
        let nm = names();
        for case in 0..60 {
            let text = if case == 57 {
                // decimals that a float's debug form writes with an exponent, in arrays; iteration names that begin with an underscore
                let pool = ["0.0000001", "10000000000000000.0", "2.5", "0.00000025", "123456789012345680000.0", "-0.00000003", "7.0"];
                let k = rng.gen_range(1..4);
                let items: Vec<&str> = (0..k).map(|_| pool[rng.gen_range(0..pool.len())]).collect();
                let v = ["_a", "__k", "i", "_j2"][rng.gen_range(0..4)];
                let dec = ["1.5", "0.25", "2.0", "10.75"][rng.gen_range(0..4)];
                format!("max sum(n in vals) {{ n * x }} + sum({v} in 0..2) {{ y_{{{v}}} }} + z_{{{dec}}}\ns.t.\n    x <= 1\n    z_{{{dec}}} <= 2\n    y_{{{v}}} <= {v} + 1 for {v} in 0..2\nwhere\n    let vals = [{}]\ndefine\n    x as NonNegativeReal\n    y_{{{v}}} as NonNegativeReal for {v} in 0..2\n    z_{{{dec}}} as NonNegativeReal\n", items.join(", "))
            } else if case == 58 {
                // string literals with the escapes of the grammar, alone and in arrays
                let pool = ["a\\nb", "q\\\"r", "t\\\\u", "\\u00e9x", "\u{e9}t\u{e9}", "tab\\t", "plain", "sl\\/ash", "e\u{301}", "two\n  lines", "end\n", "bs\\\\", "\\\\", "q\\\\\\\""];
                let k = rng.gen_range(1..6);
                let items: Vec<String> = (0..k).map(|_| format!("\"{}\"", pool[rng.gen_range(0..pool.len())])).collect();
                let one = pool[rng.gen_range(0..pool.len())];
                format!("min x + len(S) + sum(s in S) {{ 1 }}\ns.t.\n    x >= len(S)\nwhere\n    let S = [{}]\n    let one = \"{one}\"\ndefine\n    x as Real\n", items.join(", "))
            } else if case == 59 {
                // an index written as a quoted string next to a constant of that name: x_{"A"} is the variable x_A,
                // x_A with `let A = 3` is x_3
                let a = ["A", "B", "k", "n1"][rng.gen_range(0..4)];
                let v = rng.gen_range(1..9);
                let (c1, c2) = (rng.gen_range(1..6), rng.gen_range(1..6));
                // and an escaped name used as an index next to constants that spell its parts: v_{\esc_X} is v_esc_X,
                // v_esc_X with let esc = 5, let X = 2 is v_5_2
                format!("max {c1} x_{{\"{a}\"}} + {c2} x_{a} + v_{{\\esc_X}} + v_esc_X\ns.t.\n    x_{{\"{a}\"}} <= 3\n    x_{a} + x_{{\"{a}\"}} <= 4\n    v_{{\\esc_X}} <= 3\n    v_esc_X <= 2\nwhere\n    let {a} = {v}\n    let esc = 5\n    let X = 2\ndefine\n    x_{{\"{a}\"}} as NonNegativeReal\n    x_{a} as NonNegativeReal\n    v_{{\\esc_X}} as NonNegativeReal\n    v_esc_X as NonNegativeReal\n    \\esc_X as Real(1, 1)\n")
            } else if case % 3 == 2 {
                crate::gen_data::gen_prog(&mut rng).0.text_p()
            } else if case % 2 == 0 {
                let toks = random_tokens(&mut rng, 8);
                let symbols = rng.gen_bool(0.5);
                program_for(&render(&toks, &nm, symbols))
            } else {
                let stratum = STRATA[rng.gen_range(0..STRATA.len())];
                let mut m = gen_model(&mut rng, stratum);
                if rng.gen_bool(0.5) {
                    m.names = (0..m.n()).map(|i| ["x", "y", "z", "w"][i].to_string()).collect();
                } else if rng.gen_bool(0.2) {
                    // names that begin with underscores are plain names (simple_variable), not compound ones
                    m.names = (0..m.n()).map(|i| ["_x", "__y", "_z1", "w"][i].to_string()).collect();
                }
                if rng.gen_bool(0.1) && m.sense != Sense::Satisfy {
                    // integral values beyond 2^63 can only be written as decimals
                    m.obj = E::add(m.obj.clone(), E::Num([3e19, 1e21, 2.5e20][rng.gen_range(0..3)]));
                }
                if rng.gen_bool(0.15) {
                    // literals with more digits than any rounding of the formatter may keep
                    let k = [0.0000004, 3.14159265, 0.3333333333, 1.0000001, 123.4567891, 0.000000123][rng.gen_range(0..6)];
                    let nums: Vec<usize> = (0..m.n()).filter(|i| m.types[*i] != VT::Bool).collect();
                    if let Some(&i) = nums.first() {
                        m.cons.push(Con { name: None, kind: CKind::Cmp(E::mul(E::Num(k), E::Var(i)), Cmp::Le, E::Num(k * 3.0)) });
                        if m.sense != Sense::Satisfy {
                            m.obj = E::add(m.obj.clone(), E::mul(E::Num(k), E::Var(i)));
                        }
                    }
                }
                let style = Style::random(&mut rng);
                model_text(&m, &mut rng, style)
            };
            if only.is_some_and(|o| o != case) {
                continue;
            }
            out.case = case;
            out.eval();
            match check_format(&text, &mut rng, out) {
                Ok(true) => {
                    out.tag(if case % 3 == 2 { "data-driven-program-preserved" } else if case % 2 == 0 { "expression-corpus-preserved" } else { "model-text-preserved" });
                    out.nontrivial(hash_str(&text));
                    if out.report.samples.is_empty() && out.unit < 16 {
                        out.sample(json!({"original": text, "formatted": format_text(&text).and_then(|r| r.ok())}));
                    }
                }
                Ok(false) => {}
                Err((sig, what, detail)) => out.violation(&sig, &what, detail),
            }
        }
    }
    fn rule(&self) -> String {
        "(exhaustive at every run, unit 0) every (parent operator, child operator, side) triple of the 9 binary operators with a parenthesised child, in keyword and symbol spelling (324 programs), plus 21 programs for unary operators over parenthesised children and negative constants, implicit products and blocks; (random) expression texts of the C09 corpus embedded as objectives, and whole model texts from G-text (random layout, aliases, implicit multiplication, where-constants, named constraints, comments, compound names), and data-driven programs from G-data (arrays incl. mixed integer/decimal and nested ones, graphs, ranges, enumerate/zip/set functions, scoped blocks, for-quantified constraints and declarations). For every text T that parses: format(T) parses and formats to itself; type_check and parse_and_transform succeed or fail alike; the two compiled models have identical declarations, constraint names and relations, and every expression pair evaluates identically (exact evaluator) at 24 assignments over {0..3}; the linear models are compared row by row where both exist. non-trivial = text whose formatted version compiled to a model of equal meaning Fixed templates per unit: names that begin with underscores, quoted-string indexes beside a constant of that name, string literals with every escape of the grammar, non-ASCII characters, raw line breaks and trailing backslashes (alone and in arrays), decimals whose float debug form has an exponent, iteration names with a leading underscore.".into()
    }
    fn thresholds(&self, tier: Tier) -> Thresholds {
        let s = tier.pick(1, 10);
        Thresholds {
            min_tags: vec![
                ("formats-to-itself", 10000 * s),
                ("expression-corpus-preserved", 3000 * s),
                ("model-text-preserved", 2500 * s),
                ("data-driven-program-preserved", 3000 * s),
                ("triple-preserved", 200),
            ],
            min_nontrivial: 9000 * s,
        }
    }
}
