//! C16 - all front doors agree: fluent builder (operators, typed operator overloads, enum
//! constructors, call orders), source text (constants in the text or through the API), the
//! staged pipe runner and the one-shot RoocSolver; plus handle / name / eval read-back.
use crate::ast::*;
use crate::compile::*;
use crate::gen_model::*;
use crate::lin::XLin;
use crate::rat::*;
use crate::runner::*;
use crate::solve::*;
use crate::text::*;
use indexmap::IndexMap;
use num_traits::Signed;
use rand::Rng;
use rand_chacha::ChaCha8Rng;
use rooc::model_transformer::Model;
use rooc::pipe::{AutoSolverPipe, CompilerPipe, LinearModelPipe, MILPSolverPipe, ModelPipe, PipeContext, PipeRunner, PipeableData, PreModelPipe};
use rooc::{BinOp, Constant, Expr, LinearModel, ModelBuilder, Primitive, RoocParser, RoocSolver, RoocSolverError, UnOp, Var};
use serde_json::{Value, json};
use std::panic::{AssertUnwindSafe, catch_unwind};

pub struct C16;

/// The same tree as `E::to_expr`, built through the other half of the builder surface: enum
/// constructors and the typed overloads (Var op f64, f64 op Var, Var op i32, Var & Var, bool
/// constants, !Var, -Var ...).
fn as_i32(f: f64) -> Option<i32> {
    if f.fract() == 0.0 && f.abs() < 1e6 && !(f == 0.0 && f.is_sign_negative()) { Some(f as i32) } else { None }
}

fn to_expr_alt(e: &E, rng: &mut ChaCha8Rng) -> Expr {
    let var = |i: usize| Var { index: i };
    macro_rules! arith {
        ($a:expr, $c:expr, $op:tt, $bop:expr) => {{
            match (&**$a, &**$c) {
                (E::Var(i), E::Var(j)) => var(*i) $op var(*j),
                (E::Var(i), E::Num(f)) => {
                    if f.fract() == 0.0 && f.abs() < 1e6 && !(*f == 0.0 && f.is_sign_negative()) && rng.gen_bool(0.5) {
                        var(*i) $op (*f as i32)
                    } else {
                        var(*i) $op *f
                    }
                }
                (E::Num(f), E::Var(j)) => {
                    if as_i32(*f).is_some() && rng.gen_bool(0.5) {
                        as_i32(*f).unwrap() $op var(*j)
                    } else {
                        *f $op var(*j)
                    }
                }
                (E::Var(i), _) => var(*i) $op to_expr_alt($c, rng),
                (_, E::Var(j)) => to_expr_alt($a, rng) $op var(*j),
                (_, E::Num(f)) => {
                    if as_i32(*f).is_some() && rng.gen_bool(0.5) {
                        to_expr_alt($a, rng) $op as_i32(*f).unwrap()
                    } else {
                        to_expr_alt($a, rng) $op *f
                    }
                }
                (E::Num(f), _) => {
                    if as_i32(*f).is_some() && rng.gen_bool(0.5) {
                        as_i32(*f).unwrap() $op to_expr_alt($c, rng)
                    } else {
                        *f $op to_expr_alt($c, rng)
                    }
                }
                _ => {
                    if rng.gen_bool(0.5) {
                        Expr::BinOp($bop, Box::new(to_expr_alt($a, rng)), Box::new(to_expr_alt($c, rng)))
                    } else {
                        to_expr_alt($a, rng) $op to_expr_alt($c, rng)
                    }
                }
            }
        }};
    }
    match e {
        E::Num(f) => Expr::Number(*f),
        E::Var(i) => Expr::Variable(*i),
        E::Abs(a) => Expr::Abs(Box::new(to_expr_alt(a, rng))),
        E::Min(es) => Expr::Min(es.iter().map(|x| to_expr_alt(x, rng)).collect()),
        E::Max(es) => Expr::Max(es.iter().map(|x| to_expr_alt(x, rng)).collect()),
        E::And(es) => match es.as_slice() {
            [E::Var(i), E::Var(j)] => var(*i) & var(*j),
            [E::Var(i), E::Num(f)] if *f == 1.0 || (*f == 0.0 && f.is_sign_positive()) => var(*i) & (*f == 1.0),
            [a, E::Var(j)] if !matches!(a, E::Var(_)) => to_expr_alt(a, rng) & var(*j),
            _ => Expr::And(es.iter().map(|x| to_expr_alt(x, rng)).collect()),
        },
        E::Or(es) => match es.as_slice() {
            [E::Var(i), E::Var(j)] => var(*i) | var(*j),
            [E::Var(i), E::Num(f)] if *f == 1.0 || (*f == 0.0 && f.is_sign_positive()) => var(*i) | (*f == 1.0),
            [E::Var(i), c] if !matches!(c, E::Var(_)) => var(*i) | to_expr_alt(c, rng),
            _ => Expr::Or(es.iter().map(|x| to_expr_alt(x, rng)).collect()),
        },
        E::Not(a) => match &**a {
            E::Var(i) => !var(*i),
            _ => Expr::Not(Box::new(to_expr_alt(a, rng))),
        },
        E::Xor(a, c) => match (&**a, &**c) {
            (E::Var(i), E::Var(j)) => var(*i) ^ var(*j),
            (E::Var(i), _) => var(*i) ^ to_expr_alt(c, rng),
            _ => Expr::Xor(Box::new(to_expr_alt(a, rng)), Box::new(to_expr_alt(c, rng))),
        },
        E::Implies(a, c) => match &**a {
            E::Var(i) => var(*i).implies(to_expr_alt(c, rng)),
            _ => Expr::Implies(Box::new(to_expr_alt(a, rng)), Box::new(to_expr_alt(c, rng))),
        },
        E::Iff(a, c) => match &**a {
            E::Var(i) => var(*i).iff(to_expr_alt(c, rng)),
            _ => Expr::Iff(Box::new(to_expr_alt(a, rng)), Box::new(to_expr_alt(c, rng))),
        },
        E::Add(a, c) => arith!(a, c, +, BinOp::Add),
        E::Sub(a, c) => arith!(a, c, -, BinOp::Sub),
        E::Mul(a, c) => arith!(a, c, *, BinOp::Mul),
        E::Div(a, c) => arith!(a, c, /, BinOp::Div),
        E::Neg(a) => match &**a {
            E::Var(i) => -var(*i),
            _ => Expr::UnOp(UnOp::Neg, Box::new(to_expr_alt(a, rng))),
        },
    }
}

/// Builder door with a different call order and construction style.
fn build_alt(m: &M, rng: &mut ChaCha8Rng) -> (ModelBuilder, Vec<Var>, String) {
    let mut mb = ModelBuilder::new();
    let handles: Vec<Var> = m.names.iter().zip(&m.types).map(|(n, t)| mb.add_var(n.as_str(), t.to_rooc())).collect();
    let objective_first = rng.gen_bool(0.5);
    let with_all = rng.gen_bool(0.5);
    let unset_satisfy = m.sense == Sense::Satisfy && rng.gen_bool(0.5);
    let decoy = rng.gen_bool(0.3) && !unset_satisfy;
    let label = format!(
        "objective-{}{}{}{}",
        if objective_first { "first" } else { "last" },
        if with_all { "+with_all" } else { "+with" },
        if decoy { "+overridden-objective" } else { "" },
        if unset_satisfy { "+default-objective" } else { "" }
    );
    let obj = to_expr_alt(&m.obj, rng);
    let set_objective = |mb: ModelBuilder, obj: Expr| match m.sense {
        Sense::Min => mb.minimize(obj),
        Sense::Max => mb.maximize(obj),
        Sense::Satisfy => {
            if unset_satisfy {
                mb
            } else {
                mb.satisfy()
            }
        }
    };
    if decoy {
        mb = mb.maximize(Expr::Number(7.0) + handles[0]);
    }
    if objective_first {
        mb = set_objective(mb, obj.clone());
    }
    let cons: Vec<rooc::BuilderConstraint> = m
        .cons
        .iter()
        .map(|c| {
            let name = c.name.clone().unwrap_or_default();
            match &c.kind {
                CKind::Cmp(l, cmp, r) => rooc::BuilderConstraint::new(to_expr_alt(l, rng), cmp.to_rooc(), to_expr_alt(r, rng), name),
                CKind::Assert(e) => rooc::BuilderConstraint::new_logic_assertion(to_expr_alt(e, rng), name),
            }
        })
        .collect();
    if with_all {
        let k = rng.gen_range(0..=cons.len());
        let mut it = cons.into_iter();
        let first: Vec<_> = it.by_ref().take(k).collect();
        mb = mb.with_all(first);
        mb = mb.with_all(it);
    } else {
        for c in cons {
            mb = mb.with(c);
        }
    }
    if !objective_first {
        mb = set_objective(mb, obj);
    }
    (mb, handles, label)
}

/// The builder keeps every declared variable, the text front end only the used ones: the builder's
/// linear model may carry extra all-zero columns, which are removed before the exact comparison.
fn drop_unused_columns(a: &LinearModel, keep: &[String]) -> LinearModel {
    let idx: Vec<usize> = a.variables().iter().enumerate().filter(|(_, v)| keep.contains(v)).map(|(i, _)| i).collect();
    if idx.len() == a.variables().len() {
        return a.clone();
    }
    let dropped_all_zero = a.variables().iter().enumerate().filter(|(i, _)| !idx.contains(i)).all(|(i, _)| a.objective()[i] == 0.0 && a.constraints().iter().all(|r| r.coefficients()[i] == 0.0));
    if !dropped_all_zero {
        return a.clone();
    }
    let mut out = LinearModel::new();
    for i in &idx {
        let v = &a.variables()[*i];
        out.add_variable(v, *a.domain()[v].get_type());
    }
    for r in a.constraints() {
        out.add_named_constraint(idx.iter().map(|i| r.coefficients()[*i]).collect(), *r.constraint_type(), r.rhs(), &r.name());
    }
    out.set_objective(idx.iter().map(|i| a.objective()[*i]).collect(), a.optimization_type().clone());
    let (obj, sense, _, rows, vars, dom) = out.into_parts();
    LinearModel::new_from_parts(obj, sense, a.objective_offset(), rows, vars, dom)
}

fn exact_same_lm(a: &LinearModel, b_: &LinearModel) -> Result<(), String> {
    if a.variables() != b_.variables() {
        return Err(format!("variables {:?} vs {:?}", a.variables(), b_.variables()));
    }
    for v in a.variables() {
        let (ta, tb) = (a.domain()[v].get_type(), b_.domain()[v].get_type());
        let (la, ha, ka) = crate::lin::vt_bounds(ta);
        let (lb, hb, kb) = crate::lin::vt_bounds(tb);
        if ka != kb || la != lb || ha != hb {
            return Err(format!("domain of {v}: {ta} vs {tb}"));
        }
    }
    if a.optimization_type() != b_.optimization_type() {
        return Err("objective sense".into());
    }
    if a.objective() != b_.objective() || a.objective_offset() != b_.objective_offset() {
        return Err(format!("objective {:?} + {} vs {:?} + {}", a.objective(), a.objective_offset(), b_.objective(), b_.objective_offset()));
    }
    if a.constraints().len() != b_.constraints().len() {
        return Err(format!("{} rows vs {}", a.constraints().len(), b_.constraints().len()));
    }
    for (i, (ra, rb)) in a.constraints().iter().zip(b_.constraints()).enumerate() {
        if ra.name() != rb.name() || ra.constraint_type() != rb.constraint_type() || ra.rhs() != rb.rhs() || ra.coefficients() != rb.coefficients() {
            return Err(format!("row {i}: '{}' vs '{}'", ra, rb));
        }
    }
    Ok(())
}

enum Front {
    Ok(Model, Compiled),
    TransformErr(String),
    Panic(String),
}

fn text_front(src: &str, consts: Vec<Constant>) -> Front {
    let r = catch_unwind(AssertUnwindSafe(|| RoocParser::new(src.to_string()).parse_and_transform(consts, &IndexMap::new())));
    match r {
        Ok(Ok(model)) => {
            let c = linearize_model(model.clone());
            Front::Ok(model, c)
        }
        Ok(Err(e)) => Front::TransformErr(e),
        Err(p) => Front::Panic(panic_msg(p)),
    }
}

fn api_constants(consts: &[(String, f64)], rng: &mut ChaCha8Rng) -> Vec<Constant> {
    consts
        .iter()
        .map(|(n, v)| {
            let p = if v.fract() == 0.0 && *v >= 0.0 && *v < 1e9 {
                match rng.gen_range(0..3) {
                    0 => Primitive::Number(*v),
                    1 => Primitive::Integer(*v as i64),
                    _ => Primitive::PositiveInteger(*v as u64),
                }
            } else {
                Primitive::Number(*v)
            };
            Constant::from_primitive(n, p)
        })
        .collect()
}

fn trees_identical(a: &Model, b_: &Model) -> bool {
    let ser = |e: &rooc::model_transformer::Exp| serde_json::to_string(e).unwrap_or_default();
    if a.objective().objective_type != b_.objective().objective_type || ser(&a.objective().rhs) != ser(&b_.objective().rhs) {
        return false;
    }
    if a.constraints().len() != b_.constraints().len() {
        return false;
    }
    a.constraints().iter().zip(b_.constraints()).all(|(x, y)| {
        x.constraint_type() == y.constraint_type() && x.is_logic_assertion() == y.is_logic_assertion() && ser(x.lhs()) == ser(y.lhs()) && ser(x.rhs()) == ser(y.rhs())
    })
}

/// Hand-written models built with the `vars!`, `constraint!` and `expr!` macros next to the text
/// a user would write for the same model.
fn macro_corpus() -> Vec<(&'static str, ModelBuilder, &'static str)> {
    use rooc::builder::{abs, all, any, max, min, sum};
    use rooc::{constraint, expr, vars};
    let mut v: Vec<(&'static str, ModelBuilder, &'static str)> = vec![];
    {
        let mut model = ModelBuilder::new();
        vars! { model =>
            make_a: bool;
            make_b: bool;
            make_c: bool;
            material: int(0, 8);
        };
        let mb = model
            .maximize(6.0 * make_a + 5.0 * make_b + 4.0 * make_c - material)
            .with(constraint!(2.0 * make_a + 3.0 * make_b + make_c <= material))
            .with(constraint!(make_a -> make_b))
            .with(constraint!(any(vec![make_a, make_c])));
        v.push((
            "production",
            mb,
            "max 6 * make_a + 5 * make_b + 4 * make_c - material\ns.t.\n    2 * make_a + 3 * make_b + make_c <= material\n    make_a -> make_b\n    any { make_a, make_c }\ndefine\n    make_a, make_b, make_c as Boolean\n    material as IntegerRange(0, 8)\n",
        ));
    }
    {
        let mut model = ModelBuilder::new();
        vars! { model =>
            x[3]: bool;
            r: real(-2.0, 5.0);
            t: nonneg(0.0, 4.0);
            n: int(-1, 3);
        };
        let mb = model
            .with(constraint!(cap: 2.0 * x[0] + 3.0 * x[1] + 4.0 * x[2] <= 6.0))
            .with(constraint!(link: r + t == n + 1.5))
            .with(constraint!(x[0] <-> x[1]))
            .with(constraint!(abs(r) <= 2.0))
            .with(constraint!(low: min(vec![expr!(r), expr!(t)]) >= 0.5))
            .minimize(sum(vec![expr!(r), expr!(t), expr!(n)]) - 2.0 * x[2]);
        v.push((
            "arrays-and-names",
            mb,
            "min r + t + n - 2 * x_2\ns.t.\n    cap: 2 * x_0 + 3 * x_1 + 4 * x_2 <= 6\n    link: r + t = n + 1.5\n    x_0 <-> x_1\n    abs { r } <= 2\n    low: min { r, t } >= 0.5\ndefine\n    x_0, x_1, x_2 as Boolean\n    r as Real(-2, 5)\n    t as NonNegativeReal(0, 4)\n    n as IntegerRange(-1, 3)\n",
        ));
    }
    {
        let mut model = ModelBuilder::new();
        vars! { model =>
            p: bool;
            q: bool;
            s: bool;
            y: real(0.0, 10.0);
        };
        let mb = model
            .maximize(y + 2.0 * expr!(p -> q))
            .with(constraint!(all(vec![p | q, !s | q])))
            .with(constraint!((p ^ s) -> q))
            .with(constraint!(y <= 3.0 + 4.0 * max(vec![expr!(p), expr!(s)])))
            .with(constraint!(only: p & q <-> s));
        v.push((
            "logic",
            mb,
            "max y + 2 * (p -> q)\ns.t.\n    all { p or q, not s or q }\n    (p xor s) -> q\n    y <= 3 + 4 * max { p, s }\n    only: p and q <-> s\ndefine\n    p, q, s as Boolean\n    y as Real(0, 10)\n",
        ));
    }
    {
        let mut model = ModelBuilder::new();
        vars! { model =>
            a: real;
            b: nonneg;
            c: int(0, 5);
            unused: real(1.0, 2.0);
        };
        let mb = model
            .with(constraint!(a >= -3.0))
            .with(constraint!(a + b <= 7.5))
            .with(constraint!(-a + 2.0 * b >= c / 2.0))
            .maximize(a + b - 0.5 * c);
        v.push((
            "free-and-unused",
            mb,
            "max a + b - 0.5 * c\ns.t.\n    a >= -3\n    a + b <= 7.5\n    -a + 2 * b >= c / 2\ndefine\n    a as Real\n    b as NonNegativeReal\n    c as IntegerRange(0, 5)\n    unused as Real(1, 2)\n",
        ));
    }
    {
        // every arm of vars!: scalar and indexed, each domain form
        let mut model = ModelBuilder::new();
        vars! { model =>
            sb: bool;
            sr: real;
            srb: real(-3.0, 4.0);
            sn: nonneg;
            snb: nonneg(1.0, 6.0);
            si: int(-2, 5);
            ab[2]: bool;
            ar[2]: real;
            arb[2]: real(-3.0, 4.0);
            an[2]: nonneg;
            anb[2]: nonneg(1.0, 6.0);
            ai[2]: int(-2, 5);
        };
        let mb = model
            .minimize(sr + srb + sn + snb + si + ar[0] + ar[1] + arb[0] + arb[1] + an[0] + an[1] + anb[0] + anb[1] + ai[0] + ai[1] + sb + ab[0] + ab[1])
            .with(constraint!(sr >= -7.5))
            .with(constraint!(ar[0] >= -1.5))
            .with(constraint!(ar[1] >= -2.5))
            .with(constraint!(low: an[0] - an[1] >= -3.0))
            .with(constraint!(an[0] + an[1] >= -4.0))
            .with(constraint!(sn + srb >= -5.0));
        v.push((
            "every-vars-arm",
            mb,
            "min sr + srb + sn + snb + si + ar_0 + ar_1 + arb_0 + arb_1 + an_0 + an_1 + anb_0 + anb_1 + ai_0 + ai_1 + sb + ab_0 + ab_1\ns.t.\n    sr >= -7.5\n    ar_0 >= -1.5\n    ar_1 >= -2.5\n    low: an_0 - an_1 >= -3\n    an_0 + an_1 >= -4\n    sn + srb >= -5\ndefine\n    sb as Boolean\n    sr as Real\n    srb as Real(-3, 4)\n    sn as NonNegativeReal\n    snb as NonNegativeReal(1, 6)\n    si as IntegerRange(-2, 5)\n    ab_0, ab_1 as Boolean\n    ar_0, ar_1 as Real\n    arb_0, arb_1 as Real(-3, 4)\n    an_0, an_1 as NonNegativeReal\n    anb_0, anb_1 as NonNegativeReal(1, 6)\n    ai_0, ai_1 as IntegerRange(-2, 5)\n",
        ));
    }
    v
}

fn verdict_of(o: &Outcome) -> String {
    match o {
        Outcome::Solved(_) => "solved".into(),
        other => other.kind(),
    }
}

fn from_solver_result(r: Result<rooc::LpSolution<rooc::MILPValue>, rooc::SolverError>) -> Outcome {
    match r {
        Ok(s) => Outcome::Solved(from_milp_pub(s)),
        Err(e) => map_err(e),
    }
}

fn pipe_run(src: &str, consts: Vec<Constant>, solver: &str) -> Result<(Option<LinearModel>, Outcome), String> {
    let mut pipes: Vec<Box<dyn rooc::pipe::Pipeable>> = vec![Box::new(CompilerPipe::new()), Box::new(PreModelPipe::new()), Box::new(ModelPipe::new()), Box::new(LinearModelPipe::new())];
    match solver {
        "auto" => pipes.push(Box::new(AutoSolverPipe::new())),
        _ => pipes.push(Box::new(MILPSolverPipe::new())),
    }
    let fns = IndexMap::new();
    let runner = PipeRunner::new(pipes);
    let ctx = PipeContext::new(consts, &fns);
    match catch_unwind(AssertUnwindSafe(|| runner.run(PipeableData::String(src.to_string()), &ctx))) {
        Err(p) => Err(format!("panic: {}", panic_msg(p))),
        Ok(Ok(stages)) => {
            let mut lm = None;
            let mut out = None;
            for s in stages {
                match s {
                    PipeableData::LinearModel(l) => lm = Some(l),
                    PipeableData::MILPSolution(sol) => out = Some(Outcome::Solved(from_milp_pub(sol))),
                    _ => {}
                }
            }
            out.map(|o| (lm, o)).ok_or_else(|| "pipe run ended without a solution stage".to_string())
        }
        Ok(Err((e, stages))) => {
            let lm = stages.into_iter().find_map(|s| if let PipeableData::LinearModel(l) = s { Some(l) } else { None });
            match e {
                rooc::pipe::PipeError::SolverError(e) => Ok((lm, map_err(e))),
                other => Ok((lm, Outcome::Failed("pipe".into(), format!("{other}")))),
            }
        }
    }
}

fn rooc_solver_run(src: &str, consts: Vec<Constant>) -> Outcome {
    let r = catch_unwind(AssertUnwindSafe(|| match RoocSolver::try_new(src.to_string()) {
        Err(e) => Outcome::Failed("parse".into(), e.to_string_from_source(src)),
        Ok(s) => match s.solve_with_data_using(rooc::auto_solver, consts, &IndexMap::new()) {
            Ok(sol) => Outcome::Solved(from_milp_pub(sol)),
            Err(RoocSolverError::Transform(e)) => Outcome::Failed("transform".into(), e.to_string()),
            Err(RoocSolverError::Linearization(e)) => Outcome::Failed(format!("linearization:{}", lin_err_kind(&e)), e.to_string()),
            Err(RoocSolverError::Solver(e)) => map_err(e),
        },
    }));
    r.unwrap_or_else(|p| Outcome::Panicked(panic_msg(p)))
}

fn compiled_class(c: &Compiled) -> String {
    match c {
        Compiled::Ok(_) => "ok".into(),
        Compiled::Rejected(e) => format!("rejected:{}", lin_err_kind(e)),
        Compiled::Panicked(_) => "panic".into(),
    }
}

impl Driver for C16 {
    fn id(&self) -> &'static str {
        "C16"
    }
    fn sandboxed(&self) -> bool {
        true
    }
    fn cpu_budget_s(&self) -> f64 {
        10.0
    }
    fn units(&self, tier: Tier) -> usize {
        tier.pick(3200, 48000)
    }
    fn run_unit(&self, ctx: &Ctx, out: &mut UnitOut, start: usize, only: Option<usize>) {
        let mut rng = unit_rng(ctx, "C16", out.unit);
        if out.unit == 0 {
            for (k, (label, mb, text)) in macro_corpus().into_iter().enumerate() {
                let case = 100 + k;
                if case < start || only.is_some_and(|o| o != case) {
                    continue;
                }
                out.begin_case(case, &json!({"text": text}).to_string());
                out.eval();
                let model_b = mb.clone().into_model();
                let detail = |extra: Value| json!({"macro_model": label, "built": model_b.to_string(), "text": text, "detail": extra});
                match text_front(text, vec![]) {
                    Front::Ok(model_t, Compiled::Ok(lt)) => {
                        // -3.0 is a literal for the builder and a negated literal for the parser
                        let same = trees_identical(&model_b, &model_t);
                        match catch_unwind(AssertUnwindSafe(|| mb.clone().linearize())) {
                            Ok(Ok(lb)) => {
                                let cmp = if same { exact_same_lm(&drop_unused_columns(&lb, lt.variables()), &lt) } else { crate::props::c12::same_linear_model(&drop_unused_columns(&lb, lt.variables()), &lt).map(|_| ()).map_err(|e| e.1) };
                                match cmp {
                                    Ok(()) => {
                                        out.tag("macro-model-matches-text");
                                        out.tag(if same { "macro-model:identical-trees" } else { "macro-model:equal-rows" });
                                        out.nontrivial(hash_str(text));
                                        let a = from_solver_result(catch_unwind(AssertUnwindSafe(|| rooc::auto_solver(&lb))).unwrap_or(Err(rooc::SolverError::Other("panic".into()))));
                                        let b_ = rooc_solver_run(text, vec![]);
                                        let va = if let Outcome::Solved(s) = &a { Some(s.value) } else { None };
                                        let vb = if let Outcome::Solved(s) = &b_ { Some(s.value) } else { None };
                                        if verdict_of(&a) != verdict_of(&b_) || va.zip(vb).is_some_and(|(x, y)| (x - y).abs() > 1e-6 * x.abs().max(1.0)) {
                                            out.violation("macro-model-solves-differently", &format!("{:?} vs {:?}", (verdict_of(&a), va), (verdict_of(&b_), vb)), detail(Value::Null));
                                        } else {
                                            out.tag("macro-model-solves-alike");
                                        }
                                    }
                                    Err(why) => out.violation("macro-model-differs-from-text", &why, detail(json!({"builder": lb.to_string(), "text": lt.to_string()}))),
                                }
                            }
                            other => out.violation("macro-model-does-not-compile", &format!("{:?}", other.map(|r| r.map(|_| ()).map_err(|e| e.to_string())).map_err(panic_msg)), detail(Value::Null)),
                        }
                    }
                    Front::Ok(_, c) => out.violation("macro-corpus-text-rejected", &compiled_class(&c), detail(Value::Null)),
                    Front::TransformErr(e) => out.violation("macro-corpus-text-rejected", e.lines().next().unwrap_or(""), detail(json!(e))),
                    Front::Panic(p) => out.violation("macro-corpus-text-panics", &p, detail(Value::Null)),
                }
                out.end_case();
            }
        }
        for case in 0..25 {
            let stratum = STRATA[rng.gen_range(0..STRATA.len())];
            let mut m = gen_model(&mut rng, stratum);
            crate::props::c03::bound_domains(&mut m, &mut rng);
            // an empty declared range cannot be written in the text language (the transformer rejects it)
            for t in m.types.iter_mut() {
                match t {
                    VT::Real(lo, hi) | VT::NonNeg(lo, hi) if *lo > *hi => std::mem::swap(lo, hi),
                    VT::Int(lo, hi) if *lo > *hi => std::mem::swap(lo, hi),
                    _ => {}
                }
            }
            if m.sense != Sense::Satisfy && rng.gen_bool(0.12) {
                // one dominant term: good solutions then differ by a tiny fraction of the objective, and every door
                // must still return the same one
                let ints: Vec<usize> = (0..m.n()).filter(|i| matches!(m.types[*i], VT::Bool | VT::Int(..))).collect();
                if let Some(&i) = ints.first() {
                    let k = if m.sense == Sense::Max { 100000.0 } else { -100000.0 };
                    m.obj = E::add(m.obj.clone(), E::mul(E::Num(k), E::Var(i)));
                }
            }
            if rng.gen_bool(0.06) {
                // an assertion whose operand is not 0/1-valued: every door has to refuse it
                let nums: Vec<usize> = (0..m.n()).filter(|i| !matches!(m.types[*i], VT::Bool)).collect();
                if let Some(&i) = nums.first() {
                    let e = match rng.gen_range(0..3) {
                        0 => E::Var(i),
                        1 => E::add(E::Var(i), E::Num(1.0)),
                        _ => E::Neg(Box::new(E::Var(i))),
                    };
                    m.cons.push(Con { name: None, kind: CKind::Assert(e) });
                }
            }
            let unused = if rng.gen_bool(0.3) {
                m.names.push("unused_var".to_string());
                m.types.push(match rng.gen_range(0..4) {
                    0 => VT::Bool,
                    1 => VT::Int(-2, 3),
                    2 => VT::Real(-1.5, 2.5),
                    _ => VT::NonNeg(0.5, 4.0),
                });
                Some(m.names.len() - 1)
            } else {
                None
            };
            let style = if rng.gen_bool(0.3) { Style::plain() } else { Style::random(&mut rng) };
            let mut r1 = rng.clone();
            let (t0, consts) = model_text_ex(&m, &mut r1, style, false);
            let mut r2 = rng.clone();
            let (t1, _) = model_text_ex(&m, &mut r2, style, true);
            rng = r1;
            // a where-constant defined from the first named constant: in T1 that constant comes through the API
            let (t0, t1) = if let Some((c0, _)) = consts.first() {
                let derived = format!("    let derivedk = {c0} * 2\n");
                let t0 = t0.replacen("define\n", &format!("{derived}define\n"), 1);
                let t1 = t1.replacen("define\n", &format!("where\n{derived}define\n"), 1);
                (t0, t1)
            } else {
                (t0, t1)
            };
            let api = api_constants(&consts, &mut rng);
            let mut alt_rng = rng.clone();
            let _ = rng.gen_range(0..1000); // decouple
            let mut extra_rng = rng.clone();
            let extras: Vec<E> = {
                let mut g = G { rng: &mut extra_rng, types: m.types.clone(), stratum: Stratum::Mixed, budget: 10 };
                let mut v = vec![g.arith(2), g.arith(3)];
                if m.types.contains(&VT::Bool) {
                    v.push(g.logic(2));
                    v.push(g.logic(3));
                }
                v
            };
            if case < start || only.is_some_and(|o| o != case) {
                continue;
            }
            out.begin_case(case, &json!({"text": t0}).to_string());
            out.eval();
            let detail = |extra: Value| json!({"model": m.show(), "text": t0, "text_with_api_constants": t1, "api_constants": consts, "detail": extra});

            // ---- door A: builder (operator style), door A2: other construction style and call order
            let (mb, handles) = m.to_builder();
            let model_a = mb.clone().into_model();
            let lm_a = compile_m(&m);
            let (mb2, _h2, order) = build_alt(&m, &mut alt_rng);
            let model_a2 = mb2.clone().into_model();
            out.tag(&format!("builder-variant:{order}"));
            if !trees_identical(&model_a, &model_a2) || model_a.to_string() != model_a2.to_string() {
                out.violation(
                    "builder-styles-build-different-models",
                    &format!("the same expressions built through operators and through typed overloads / constructors ({order}) give different models"),
                    detail(json!({"operators": model_a.to_string(), "other": model_a2.to_string()})),
                );
                out.end_case();
                continue;
            }
            let lm_a2 = match catch_unwind(AssertUnwindSafe(|| mb2.clone().linearize())) {
                Ok(Ok(l)) => Compiled::Ok(l),
                Ok(Err(e)) => Compiled::Rejected(e),
                Err(p) => Compiled::Panicked(panic_msg(p)),
            };
            match (&lm_a, &lm_a2) {
                (Compiled::Ok(a), Compiled::Ok(b_)) => {
                    if let Err(why) = exact_same_lm(a, b_) {
                        out.violation("builder-call-order-changes-linear-model", &format!("{order}: {why}"), detail(json!({"a": a.to_string(), "b": b_.to_string()})));
                        out.end_case();
                        continue;
                    }
                    out.tag("builder-variants-identical");
                }
                (a, b_) if compiled_class(a) == compiled_class(b_) => out.tag("builder-variants-identical"),
                (a, b_) => {
                    out.violation("builder-call-order-changes-outcome", &format!("{order}: {} vs {}", compiled_class(a), compiled_class(b_)), detail(Value::Null));
                    out.end_case();
                    continue;
                }
            }

            // ---- door T0 (constants in the text), T1 (constants through the API)
            let f0 = text_front(&t0, vec![]);
            let f1 = text_front(&t1, api.clone());
            let (model_t0, lm_t0) = match f0 {
                Front::Ok(mo, c) => (mo, c),
                Front::TransformErr(e) => {
                    out.violation("text-door-rejects-model-the-builder-accepts", e.lines().next().unwrap_or(""), detail(json!(e)));
                    out.end_case();
                    continue;
                }
                Front::Panic(p) => {
                    out.inconclusive(&format!("panic (C18's concern): {}", p.chars().take(40).collect::<String>()));
                    out.end_case();
                    continue;
                }
            };
            match f1 {
                Front::Ok(model_t1, lm_t1) => {
                    if !consts.is_empty() {
                        out.tag("constants:api-vs-text");
                    }
                    let same_trees = trees_identical(&model_t0, &model_t1);
                    match (&lm_t0, &lm_t1) {
                        (Compiled::Ok(a), Compiled::Ok(b_)) => {
                            if same_trees {
                                if let Err(why) = exact_same_lm(a, b_) {
                                    out.violation("api-constants-vs-text-constants:linear-model-differs", &why, detail(json!({"text": a.to_string(), "api": b_.to_string()})));
                                } else {
                                    out.tag("api-constants:identical");
                                }
                            } else {
                                out.violation(
                                    "api-constants-vs-text-constants:model-differs",
                                    "a constant supplied through the API does not give the expression tree of the same constant written in the text",
                                    detail(json!({"text": model_t0.to_string(), "api": model_t1.to_string()})),
                                );
                            }
                        }
                        (a, b_) if compiled_class(a) == compiled_class(b_) => out.tag("api-constants:identical"),
                        (a, b_) => out.violation("api-constants-vs-text-constants:outcome-differs", &format!("{} vs {}", compiled_class(a), compiled_class(b_)), detail(Value::Null)),
                    }
                }
                Front::TransformErr(e) => out.violation("api-constants-rejected", e.lines().next().unwrap_or(""), detail(json!(e))),
                Front::Panic(_) => out.inconclusive("panic (C18's concern)"),
            }

            // ---- builder vs text
            let identical = trees_identical(&model_a, &model_t0);
            out.tag(if identical { "builder-vs-text:identical-trees" } else { "builder-vs-text:different-trees" });
            let mut comparable: Option<(LinearModel, LinearModel)> = None;
            match (&lm_a, &lm_t0) {
                (Compiled::Ok(a), Compiled::Ok(b_)) => {
                    if identical {
                        // names of rows are part of the tree comparison only when the user gave them
                        match exact_same_lm(&drop_unused_columns(a, b_.variables()), b_) {
                            Ok(()) => {
                                out.tag("builder-vs-text:row-for-row");
                                out.nontrivial(hash_str(&t0));
                            }
                            Err(why) => {
                                out.violation("builder-vs-text:identical-trees-different-rows", &why, detail(json!({"builder": a.to_string(), "text": b_.to_string()})));
                                out.end_case();
                                continue;
                            }
                        }
                    } else {
                        match crate::props::c12::same_linear_model(a, b_) {
                            Ok(_) => {
                                out.tag("builder-vs-text:same-rows-after-normalisation");
                                out.nontrivial(hash_str(&t0));
                            }
                            Err(_) => match crate::props::c10::same_meaning(&m, a, b_, &mut extra_rng) {
                                Ok(n) => {
                                    out.tag("builder-vs-text:same-meaning");
                                    if n > 0 {
                                        out.nontrivial(hash_str(&t0));
                                    }
                                }
                                Err(why) => {
                                    out.violation("builder-vs-text:meaning-differs", &why, detail(json!({"builder": a.to_string(), "text": b_.to_string()})));
                                    out.end_case();
                                    continue;
                                }
                            },
                        }
                    }
                    comparable = Some((a.clone(), b_.clone()));
                }
                (a, b_) if compiled_class(a) == compiled_class(b_) => out.tag(&format!("builder-vs-text:both-{}", compiled_class(a))),
                (Compiled::Panicked(_), _) | (_, Compiled::Panicked(_)) => out.inconclusive("panic (C18's concern)"),
                (a, b_) => {
                    // accepted by one door and rejected by the other (or rejected for different reasons): the same model
                    // was handed to both, whatever the shape of the trees
                    out.violation("builder-vs-text:outcome-differs", &format!("builder {} / text {}", compiled_class(a), compiled_class(b_)), detail(Value::Null));
                }
            }
            let Some((la, _lt)) = comparable else {
                out.end_case();
                continue;
            };

            // ---- solving through every door
            let solve_builder = |mb: ModelBuilder, which: &str| -> (Outcome, Option<Vec<Option<f64>>>, Option<f64>, Vec<f64>) {
                let r = catch_unwind(AssertUnwindSafe(|| {
                    macro_rules! go {
                        ($solver:expr) => {
                            match mb.solve_with($solver) {
                                Ok(bs) => {
                                    let hv: Vec<Option<f64>> = handles.iter().map(|h| bs.numeric_value(*h)).collect();
                                    let foreign = bs.numeric_value(Var { index: handles.len() + 3 });
                                    let mut hv2 = hv.clone();
                                    hv2.push(foreign);
                                    let evals: Vec<f64> = m.all_exprs().into_iter().chain(extras.iter()).map(|e| bs.eval(&e.to_expr())).collect();
                                    let mut sol = from_milp_pub(bs.solution().clone());
                                    sol.status = bs.status();
                                    (Outcome::Solved(sol), Some(hv2), Some(bs.value()), evals)
                                }
                                Err(rooc::BuilderError::Solver(e)) => (map_err(e), None, None, vec![]),
                                Err(rooc::BuilderError::Linearization(e)) => (Outcome::Failed(format!("linearization:{}", lin_err_kind(&e)), e.to_string()), None, None, vec![]),
                            }
                        };
                    }
                    if which == "auto" { go!(rooc::Auto) } else { go!(rooc::Microlp::new()) }
                }));
                r.unwrap_or_else(|p| (Outcome::Panicked(panic_msg(p)), None, None, vec![]))
            };
            let (o_ba, hv, bvalue, evals) = solve_builder(mb.clone(), "auto");
            let (o_bm, _, _, _) = solve_builder(mb2.clone(), "microlp");
            let o_direct = from_solver_result(catch_unwind(AssertUnwindSafe(|| rooc::auto_solver(&la))).unwrap_or(Err(rooc::SolverError::Other("panic".into()))));
            let o_rs0 = rooc_solver_run(&t0, vec![]);
            let o_rs1 = rooc_solver_run(&t1, api.clone());
            let p_auto = pipe_run(&t1, api.clone(), "auto");
            let p_milp = pipe_run(&t0, vec![], "milp");
            out.end_case();

            let mut doors: Vec<(&str, Outcome)> = vec![
                ("ModelBuilder::solve_with(Auto)", o_ba.clone()),
                ("ModelBuilder(other order)::solve_with(Microlp)", o_bm),
                ("auto_solver(builder.linearize())", o_direct),
                ("RoocSolver::solve_using(auto_solver)", o_rs0),
                ("RoocSolver::solve_with_data_using(auto_solver, constants)", o_rs1),
            ];
            match p_auto {
                Ok((lm, o)) => {
                    if let (Some(lm), Compiled::Ok(_)) = (&lm, &lm_t0) {
                        // the staged pipe must produce the linear model of the direct text door
                        if let Front::Ok(_, Compiled::Ok(direct)) = text_front(&t1, api.clone()) {
                            if let Err(why) = exact_same_lm(lm, &direct) {
                                out.violation("pipe-linear-model-differs-from-direct-compilation", &why, detail(json!({"pipe": lm.to_string(), "direct": direct.to_string()})));
                            } else {
                                out.tag("pipe-stage-identical");
                            }
                        }
                    }
                    doors.push(("PipeRunner[..AutoSolverPipe](constants)", o));
                }
                Err(e) => out.violation("pipe-run-failed", &e, detail(json!(e))),
            }
            match p_milp {
                Ok((_, o)) => doors.push(("PipeRunner[..MILPSolverPipe]", o)),
                Err(e) => out.violation("pipe-run-failed", &e, detail(json!(e))),
            }
            let reference = verdict_of(&doors[0].1);
            let ref_value = if let Outcome::Solved(s) = &doors[0].1 { Some(s.value) } else { None };
            out.tag(&format!("verdict:{reference}"));
            let mut agree = true;
            for (name, o) in &doors[1..] {
                if matches!(o, Outcome::Panicked(_)) {
                    out.inconclusive("panic (C18's concern)");
                    agree = false;
                    continue;
                }
                let v = verdict_of(o);
                if v != reference {
                    agree = false;
                    out.violation(
                        "doors-disagree-on-verdict",
                        &format!("{} says {reference}, {name} says {v}", doors[0].0),
                        detail(json!({"doors": doors.iter().map(|(n, o)| format!("{n}: {}", verdict_of(o))).collect::<Vec<_>>()})),
                    );
                    break;
                }
                if let (Some(a), Outcome::Solved(s)) = (ref_value, o) {
                    if m.sense != Sense::Satisfy && (a - s.value).abs() > 1e-6 * a.abs().max(1.0) {
                        agree = false;
                        out.violation(
                            "doors-disagree-on-optimal-value",
                            &format!("{} reports {a}, {name} reports {}", doors[0].0, s.value),
                            detail(json!({"doors": doors.iter().map(|(n, o)| format!("{n}: {}", match o { Outcome::Solved(s) => s.value.to_string(), other => other.kind() })).collect::<Vec<_>>()})),
                        );
                        break;
                    }
                }
            }
            if agree {
                out.tag("all-doors-agree");
                out.tag(&format!("all-doors-agree:{reference}"));
            }

            // ---- read-back through handles, names and eval
            if let (Outcome::Solved(sol), Some(hv), Some(bvalue)) = (&o_ba, &hv, bvalue) {
                let n = m.n();
                if hv[n].is_some() {
                    out.violation("foreign-handle-resolves", "a handle with an index beyond the model's variables resolves to a value", detail(json!(hv[n])));
                }
                let mut p: Vec<Q> = vec![];
                let mut ok = true;
                for j in 0..n {
                    let by_name = sol.names.iter().position(|x| *x == m.names[j]).map(|k| sol.values[k]);
                    match (hv[j], by_name) {
                        (Some(a), Some(b_)) if a == b_ && a.is_finite() => p.push(q(a).unwrap()),
                        (a, b_) => {
                            ok = false;
                            out.violation(
                                if Some(j) == unused { "unused-variable-does-not-resolve" } else { "handle-and-name-disagree" },
                                &format!("variable {}: handle -> {a:?}, by name -> {b_:?}", m.names[j]),
                                detail(sol_json(sol)),
                            );
                            break;
                        }
                    }
                }
                if ok {
                    out.tag("handles-resolve");
                    if let Some(u) = unused {
                        let (lo, hi) = m.types[u].bounds();
                        let v = to_f64(&p[u]);
                        if v < lo - 1e-6 || v > hi + 1e-6 || (m.types[u].is_discrete() && (v - v.round()).abs() > 1e-6) {
                            out.violation("unused-variable-outside-domain", &format!("{} = {v}, domain {}", m.names[u], m.types[u].show()), detail(sol_json(sol)));
                        } else {
                            out.tag("unused-variable-inside-domain");
                        }
                    }
                    // language semantics at the returned point
                    match m.feasible(&p, &pow10_neg(6)) {
                        Feas::No => out.violation("builder-solution-infeasible-for-the-source-model", "the values read through the handles violate the model under the language's semantics", detail(sol_json(sol))),
                        Feas::Undefined => out.tag("semantics:undefined-at-solution"),
                        Feas::Yes => {
                            out.tag("semantics:feasible-at-solution");
                            if m.sense != Sense::Satisfy {
                                if let Ok(v) = m.obj.eval(&p) {
                                    let want = to_f64(&v);
                                    if (want - bvalue).abs() > 1e-6 * want.abs().max(1.0) {
                                        out.violation("builder-objective-value-differs-from-semantics", &format!("value() = {bvalue}, the objective at the handle values is {want}"), detail(sol_json(sol)));
                                    } else {
                                        out.tag("semantics:objective-agrees");
                                    }
                                }
                            }
                        }
                    }
                    // eval() against the exact evaluator, on the model's own expressions
                    for (e, got) in m.all_exprs().into_iter().chain(extras.iter()).zip(&evals) {
                        match e.eval(&p) {
                            Ok(v) => {
                                let want = to_f64(&v);
                                let mut scale = want.abs().max(1.0);
                                e.visit(&mut |x| {
                                    if let E::Num(f) = x {
                                        scale = scale.max(f.abs());
                                    }
                                });
                                for pj in &p {
                                    scale = scale.max(to_f64(&pj.abs()));
                                }
                                if !(got.is_finite() && (got - want).abs() <= 1e-9 * scale * scale) {
                                    out.violation("eval-differs-from-language-semantics", &format!("eval({}) = {got}, exact value {want}", e.show(&m.names)), detail(sol_json(sol)));
                                    break;
                                }
                                out.tag("eval-agrees");
                            }
                            Err(_) => out.tag("eval:undefined-expression"),
                        }
                    }
                    if out.report.samples.is_empty() && out.unit < 4 {
                        out.sample(json!({"text": t0, "verdict": reference, "value": bvalue, "doors": doors.iter().map(|(n, _)| *n).collect::<Vec<_>>()}));
                    }
                }
            }
            let _ = XLin::from_rooc(&la);
        }
    }
    fn on_crash(&self, c: &Crash) -> Option<(String, String)> {
        Some((format!("door-never-returns({})", c.kind), format!("a front door did not return: worker ended with {}", c.kind)))
    }
    fn rule(&self) -> String {
        "random models (G-model strata: mixed, affine, piecewise, logic, derived bounds, tightened discrete; bounded domains; 30% with a declared-but-unused variable) are expressed (A) through the builder with operator overloads, (A2) through enum constructors and the typed overloads (Var op f64 / i32, f64 op Var, Var & Var, bool constants, !Var, -Var, .implies/.iff) with a random call order (objective first/last, with vs split with_all, an overridden decoy objective, default objective), (T0) as source text in a random style with constants in a where-section, (T1) the same text with those constants supplied through the API as Number / Integer / PositiveInteger (both texts also define a where-constant from the first of them), (P) through PipeRunner presets and (R) through RoocSolver; five hand-written models built with the vars!/constraint!/expr! macros (one of them declares a variable through every arm of vars!, scalar and indexed) are compared with their text spellings at every run. Oracles: A vs A2 identical models and linear models; T0 vs T1 identical expression trees and linear models; A vs T0 row-for-row identical linear models when the serialized expression trees are identical, otherwise equal rows after harmless normalisation or equal meaning on the declared variables (certified aux MILP at directed points); pipe LinearModel stage identical to direct compilation; the verdict and the optimal value (1e-6) of seven solve doors agree; handle values == values by name, foreign handles resolve to None, unused variables resolve inside their domain, the point read through the handles is feasible under the harness's exact evaluator and value() is the objective there, eval() of every model expression equals the exact evaluator (1e-9). non-trivial = distinct model whose builder and text linear models were compared 12% of the models add 1e5 times an integer variable to the objective (near-ties relative to the objective).".into()
    }
    fn thresholds(&self, tier: Tier) -> Thresholds {
        let s = tier.pick(4, 60);
        Thresholds {
            min_tags: vec![
                ("builder-variants-identical", 15000 * s),
                ("builder-vs-text:row-for-row", 3000 * s),
                ("builder-vs-text:different-trees", 3000 * s),
                ("constants:api-vs-text", 2000 * s),
                ("api-constants:identical", 10000 * s),
                ("pipe-stage-identical", 8000 * s),
                ("all-doors-agree:solved", 4000 * s),
                ("all-doors-agree:Infeasible", 1000 * s),
                ("handles-resolve", 4000 * s),
                ("unused-variable-inside-domain", 1000 * s),
                ("eval-agrees", 20000 * s),
                ("semantics:objective-agrees", 3000 * s),
                ("macro-model-matches-text", 5),
                ("macro-model-solves-alike", 5),
            ],
            min_nontrivial: 8000 * s,
        }
    }
    fn assumptions(&self) -> Vec<String> {
        vec![
            "expression trees are 'identical' when the serialized rooc expression trees of objective and every constraint side are equal".into(),
            "models are generated with bounded domains so that every door reaches a verdict".into(),
        ]
    }
}
