//! C09 - expressions parse with the documented precedence and associativity.
use crate::ast::*;
use crate::exprtext::*;
use crate::props::c10::from_exp;
use crate::rat::*;
use crate::runner::*;
use indexmap::IndexMap;
use rand::Rng;
use rand_chacha::ChaCha8Rng;
use rooc::RoocParser;
use serde_json::json;

pub struct C09;

pub const NAMES: [&str; 44] = [
    "a", "b", "c", "d", "android", "notx", "iffy", "minx", "inx", "format", "xorg", "orb", "truex", "asx",
    "falsey", "solver", "letter", "whereas", "defined", "maxim", "impliesx", "Trueish",
    // a keyword followed by a digit is an identifier too
    "not1", "or2", "and3", "xor1", "min2", "max2", "in3", "iff1", "true1", "false0", "sum1", "as2", "for3", "implies1", "solve1", "let2",
    // names that look like the exponent of a number when a number stands right before them (2e1 is 2 * e1)
    "e", "e1", "e2", "E3", "e10", "E",
];

pub fn names() -> Vec<String> {
    NAMES.iter().map(|s| s.to_string()).collect()
}

pub fn program_for(expr_text: &str) -> String {
    format!(
        "min {expr_text}\ns.t.\n    0 <= 1\ndefine\n    {} as IntegerRange(0, 3)\n",
        NAMES.join(", ")
    )
}

/// The compiled objective tree of a program, as a harness expression.
pub fn compiled_objective(text: &str, names: &[String]) -> Result<E, String> {
    let r = std::panic::catch_unwind(|| RoocParser::new(text.to_string()).parse_and_transform(vec![], &IndexMap::new()));
    match r {
        Ok(Ok(model)) => from_exp(&model.objective().rhs, names).ok_or_else(|| "unknown variable in the compiled tree".to_string()),
        Ok(Err(e)) => Err(e),
        Err(_) => Err("panic".to_string()),
    }
}

fn used_vars(toks: &[Tok]) -> Vec<usize> {
    let mut v = vec![];
    for t in toks {
        if let Tok::Var(i) = t {
            if !v.contains(i) {
                v.push(*i);
            }
        }
    }
    v
}

fn assignments_for(vars: &[usize], n_names: usize, rng: &mut ChaCha8Rng) -> Vec<Vec<Q>> {
    let mut out = vec![];
    if vars.len() <= 4 {
        let total = 4usize.pow(vars.len() as u32);
        for mut k in 0..total {
            let mut p = vec![zero(); n_names];
            for v in vars {
                p[*v] = qi((k % 4) as i64);
                k /= 4;
            }
            out.push(p);
        }
    } else {
        for _ in 0..96 {
            let mut p = vec![zero(); n_names];
            for v in vars {
                p[*v] = qi(rng.gen_range(0..4));
            }
            out.push(p);
        }
    }
    out
}

/// Ok(number of assignments compared) or Err((signature, explanation)).
pub fn compare(toks: &[Tok], text: &str, rng: &mut ChaCha8Rng) -> Result<usize, (String, String)> {
    let nm = names();
    let Some(reference) = RPrec::parse(toks) else {
        return Ok(0); // generator produced something outside the reference grammar
    };
    let ops: Vec<&'static str> = {
        let mut v: Vec<&'static str> = toks.iter().filter_map(|t| if let Tok::Op(o) = t { Some(o.name()) } else { None }).collect();
        v.sort();
        v.dedup();
        v
    };
    let compiled = match compiled_objective(&program_for(text), &nm) {
        Ok(e) => e,
        Err(e) => {
            return Err((
                "well-formed-expression-rejected".into(),
                format!("'{text}' is rejected: {}", e.lines().find(|l| l.contains('[')).unwrap_or(e.lines().next().unwrap_or(""))),
            ));
        }
    };
    let vars = used_vars(toks);
    let mut n = 0;
    for p in assignments_for(&vars, nm.len(), rng) {
        let a = reference.eval(&p);
        let c = compiled.eval(&p);
        n += 1;
        match (a, c) {
            (Ok(x), Ok(y)) if x == y => {}
            (Err(_), Err(_)) => {}
            (x, y) => {
                let n_ops = toks.iter().filter(|t| matches!(t, Tok::Op(_))).count();
                let sig = if n_ops <= 3 { format!("grouping-differs({})", ops.join(",")) } else { "grouping-differs(long-expression)".to_string() };
                return Err((
                    sig,
                    format!(
                        "'{text}' compiles to {} but the documented grammar reads it as {}; at {:?} the values are {:?} vs {:?}",
                        compiled.show(&nm),
                        reference.show(&nm),
                        vars.iter().map(|v| format!("{}={}", nm[*v], show(&p[*v]))).collect::<Vec<_>>(),
                        y.map(|q| show(&q)),
                        x.map(|q| show(&q))
                    ),
                ));
            }
        }
    }
    Ok(n)
}

pub fn random_tokens(rng: &mut ChaCha8Rng, leaves: usize) -> Vec<Tok> {
    // operand := [prefix] ( var | num | num var | num '(' expr ')' | '(' expr ')' ['(' expr ')'] [var] )
    fn operand(rng: &mut ChaCha8Rng, depth: u32, out: &mut Vec<Tok>) {
        match rng.gen_range(0..5) {
            0 => out.push(Tok::Neg),
            1 => out.push(Tok::Not),
            _ => {}
        }
        let var = |rng: &mut ChaCha8Rng| Tok::Var(if rng.gen_bool(0.7) { rng.gen_range(0..4) } else { rng.gen_range(4..NAMES.len()) });
        match rng.gen_range(0..10) {
            0..=4 => out.push(var(rng)),
            5 => out.push(Tok::Num([0.0, 1.0, 2.0, 3.0, 0.5][rng.gen_range(0..5)])),
            6 => {
                out.push(Tok::Num([2.0, 3.0, 0.5][rng.gen_range(0..3)]));
                out.push(var(rng));
            }
            7 if depth > 0 => {
                out.push(Tok::Num([2.0, 3.0][rng.gen_range(0..2)]));
                out.push(Tok::LPar);
                seq(rng, depth - 1, 2, out);
                out.push(Tok::RPar);
            }
            8 if depth > 0 => {
                out.push(Tok::LPar);
                seq(rng, depth - 1, 2, out);
                out.push(Tok::RPar);
                if rng.gen_bool(0.3) {
                    out.push(Tok::LPar);
                    seq(rng, depth - 1, 2, out);
                    out.push(Tok::RPar);
                }
                if rng.gen_bool(0.3) {
                    out.push(var(rng));
                }
            }
            _ if depth > 0 => {
                out.push(Tok::LPar);
                seq(rng, depth - 1, 3, out);
                out.push(Tok::RPar);
            }
            _ => out.push(var(rng)),
        }
    }
    fn seq(rng: &mut ChaCha8Rng, depth: u32, leaves: usize, out: &mut Vec<Tok>) {
        let n = rng.gen_range(1..=leaves.max(1));
        for i in 0..n {
            operand(rng, depth, out);
            if i + 1 < n {
                out.push(Tok::Op(BOPS[rng.gen_range(0..BOPS.len())]));
            }
        }
    }
    let mut out = vec![];
    seq(rng, 2, leaves, &mut out);
    out
}

impl Driver for C09 {
    fn id(&self) -> &'static str {
        "C09"
    }
    fn units(&self, tier: Tier) -> usize {
        tier.pick(320, 10000)
    }
    fn run_unit(&self, ctx: &Ctx, out: &mut UnitOut, _start: usize, only: Option<usize>) {
        const EXH_UNITS: usize = 240;
        let nm = names();
        let mut rng = unit_rng(ctx, "C09", out.unit);
        if out.unit < EXH_UNITS {
            // exhaustive: every flat sequence of 1..4 leaves, split over the first units
            let counts: Vec<usize> = (1..=4).map(flat_count).collect();
            let total: usize = counts.iter().sum();
            let per = total.div_ceil(EXH_UNITS);
            let lo = out.unit * per;
            let hi = ((out.unit + 1) * per).min(total);
            for g in lo..hi {
                let (mut n, mut idx) = (1, g);
                for (k, c) in counts.iter().enumerate() {
                    if idx < *c {
                        n = k + 1;
                        break;
                    }
                    idx -= c;
                }
                let toks = flat_sequence(n, idx);
                let case = g - lo;
                if only.is_some_and(|o| o != case) {
                    continue;
                }
                out.case = case;
                let symbols = g % 2 == 1;
                // every fourth sequence without blanks around the operators that are not words
                let text = render_spaced(&toks, &nm, symbols, g % 4 >= 2);
                match compare(&toks, &text, &mut rng) {
                    Ok(k) => {
                        out.evals(k as u64);
                        out.tag("sequence-agrees:exhaustive");
                        if n >= 2 {
                            out.nontrivial(hash_str(&text));
                        }
                    }
                    Err((sig, what)) => out.violation(&sig, &what, json!({"expression": text})),
                }
            }
            if out.unit == 0 {
                out.tag_n("exhaustive-sequences-total", total as u64);
                out.sample(json!({"expression": render(&flat_sequence(4, 12345), &nm, false), "symbols": render(&flat_sequence(4, 12345), &nm, true)}));
            }
            return;
        }
        for case in 0..250 {
            let toks = random_tokens(&mut rng, 12);
            let symbols = rng.gen_bool(0.5);
            let tight = rng.gen_bool(0.4);
            if only.is_some_and(|o| o != case) {
                continue;
            }
            out.case = case;
            let text = render_spaced(&toks, &nm, symbols, tight);
            if tight {
                out.tag("operators-written-without-blanks");
            }
            match compare(&toks, &text, &mut rng) {
                Ok(0) => out.tag("outside-reference-grammar"),
                Ok(k) => {
                    out.evals(k as u64);
                    out.tag("sequence-agrees:random");
                    if toks.iter().any(|t| matches!(t, Tok::Var(i) if *i >= 4)) {
                        out.tag("keyword-prefixed-identifier");
                    }
                    if toks.windows(2).any(|w| matches!(w, [Tok::Num(_), Tok::Var(_)] | [Tok::Num(_), Tok::LPar] | [Tok::RPar, Tok::LPar] | [Tok::RPar, Tok::Var(_)])) {
                        out.tag("implicit-multiplication");
                    }
                    out.nontrivial(hash_str(&text));
                    if case == 0 && out.unit < EXH_UNITS + 3 {
                        out.sample(json!({"expression": text}));
                    }
                }
                Err((sig, what)) => out.violation(&sig, &what, json!({"expression": text})),
            }
        }
    }
    fn rule(&self) -> String {
        "(exhaustive at every run) all flat sequences of 1..4 leaves a,b,c,d with every choice of the 9 binary operators between them and of the prefix (none, -, not) on each leaf - 3^n*9^(n-1) sequences, 61,320 in total, alternately in keyword and symbol (&& || ! -> <->) spelling; (random) sequences up to 12 leaves with nested parentheses, implicit products 2x, 2(x+1), (a)(b)c and identifiers that start with a keyword (android, notx, iffy, minx, inx, format, xorg, orb, truex, asx, falsey, solver, letter, whereas, defined, maxim, impliesx, Trueish) or are a keyword followed by a digit (not1, or2, and3, xor1, min2, max2, in3, iff1, true1, false0, sum1, as2, for3, implies1, solve1, let2). Each text is embedded as the objective of a program and compiled with RoocParser::parse_and_transform; the compiled tree and the tree of the harness's own precedence-climbing parser (table from the documented grammar) are evaluated exactly at all assignments over {0,1,2,3} of the variables used (256 for four variables) and must agree, including where both are undefined. non-trivial = distinct text with at least one binary operator Half of the exhaustive sequences and 40% of the random ones are written without blanks around the operators that are not words (a&&b, a->b, 2*-x).".into()
    }
    fn thresholds(&self, tier: Tier) -> Thresholds {
        let s = tier.pick(1, 25);
        Thresholds {
            min_tags: vec![
                ("sequence-agrees:exhaustive", 61320),
                ("sequence-agrees:random", 15000 * s),
                ("keyword-prefixed-identifier", 3000 * s),
                ("implicit-multiplication", 3000 * s),
            ],
            min_nontrivial: 65000,
        }
    }
    fn exhaustive(&self, _tier: Tier) -> bool {
        false
    }
}
