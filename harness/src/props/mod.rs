pub mod c17;
