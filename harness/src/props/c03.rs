//! C03 - end-to-end answers: source text -> RoocSolver -> auto_solver, judged against the
//! harness's own interpreter of the generator's AST by exhaustive enumeration.
use crate::ast::*;
use crate::gen_model::*;
use crate::rat::*;
use crate::runner::*;
use crate::solve::*;
use crate::text::*;
use num_traits::{Signed, Zero};
use rand::Rng;
use rand_chacha::ChaCha8Rng;
use rooc::{RoocSolver, RoocSolverError};
use serde_json::{Value, json};

pub struct C03;

/// Bounded-domain version of a generated model (C03 quantifies over bounded domains).
pub fn bound_domains(m: &mut M, rng: &mut ChaCha8Rng) {
    let mut reals = 0;
    for t in m.types.iter_mut() {
        match t {
            VT::Real(lo, hi) => {
                if !lo.is_finite() {
                    *lo = -(rng.gen_range(0..=8) as f64) / 2.0;
                }
                if !hi.is_finite() {
                    *hi = *lo + rng.gen_range(0..=10) as f64 / 2.0;
                }
                reals += 1;
            }
            VT::NonNeg(lo, hi) => {
                if !hi.is_finite() {
                    *hi = *lo + rng.gen_range(0..=10) as f64 / 2.0;
                }
                reals += 1;
            }
            _ => {}
        }
        if reals > 2 {
            // at most two continuous variables: the rest become small integer ranges
            if let VT::Real(lo, hi) | VT::NonNeg(lo, hi) = *t {
                let a = lo.ceil() as i32;
                let b_ = (hi.floor() as i32).max(a);
                *t = VT::Int(a, b_.min(a + 4));
            }
        }
    }
}

/// Enumeration grid: all values of discrete variables, quarter steps of continuous ones.
pub fn enumeration_grid(m: &M, cap: usize) -> Option<Vec<Vec<Q>>> {
    let mut axes: Vec<Vec<Q>> = vec![];
    let mut size = 1usize;
    for t in &m.types {
        let ax: Vec<Q> = match t {
            VT::Bool => vec![qi(0), qi(1)],
            VT::Int(a, b_) => (*a..=*b_).map(|v| qi(v as i64)).collect(),
            VT::Real(lo, hi) | VT::NonNeg(lo, hi) => {
                let lo = q(lo.max(if matches!(t, VT::NonNeg(..)) { 0.0 } else { f64::NEG_INFINITY }))?;
                let hi = q(*hi)?;
                let mut v = vec![];
                let mut k = (&lo * qi(4)).ceil();
                while &k / qi(4) <= hi {
                    v.push(&k / qi(4));
                    k += one();
                }
                v.push(lo);
                v.push(hi);
                v.sort();
                v.dedup();
                v
            }
        };
        size = size.saturating_mul(ax.len().max(1));
        if size > cap {
            return None;
        }
        axes.push(ax);
    }
    let mut pts = vec![vec![]];
    for ax in axes {
        let mut next = Vec::with_capacity(pts.len() * ax.len());
        for p in &pts {
            for v in &ax {
                let mut p2: Vec<Q> = p.clone();
                p2.push(v.clone());
                next.push(p2);
            }
        }
        pts = next;
    }
    Some(pts)
}

pub enum EndToEnd {
    Solved(Sol),
    Infeasible,
    Unbounded,
    ParseError(String),
    TransformError(String),
    LinearizationError(String),
    SolverError(String),
    Panicked(String),
}

pub fn run_text(src: &str) -> EndToEnd {
    let r = std::panic::catch_unwind(|| match RoocSolver::try_new(src.to_string()) {
        Err(e) => EndToEnd::ParseError(e.to_string_from_source(src)),
        Ok(s) => match s.solve_using(rooc::auto_solver) {
            Ok(sol) => {
                let names = sol.assignment().iter().map(|a| a.name.clone()).collect();
                let values = sol.assignment().iter().map(|a| a.value.into()).collect();
                EndToEnd::Solved(Sol {
                    names,
                    values,
                    kinds: vec![],
                    value: sol.value(),
                    constraints: sol.constraints().iter().map(|(k, v)| (k.clone(), *v)).collect(),
                    status: sol.status(),
                    shadow: vec![],
                })
            }
            Err(RoocSolverError::Transform(e)) => EndToEnd::TransformError(e.to_string()),
            Err(RoocSolverError::Linearization(e)) => EndToEnd::LinearizationError(e.to_string()),
            Err(RoocSolverError::Solver(e)) => match map_err(e) {
                Outcome::Infeasible => EndToEnd::Infeasible,
                Outcome::Unbounded => EndToEnd::Unbounded,
                other => EndToEnd::SolverError(other.kind()),
            },
        },
    });
    match r {
        Ok(v) => v,
        Err(p) => EndToEnd::Panicked(crate::compile::panic_msg(p)),
    }
}

fn better(sense: Sense, a: &Q, b_: &Q, tol: &Q) -> bool {
    match sense {
        Sense::Max => a > &(b_ + tol),
        _ => a < &(b_ - tol),
    }
}

impl Driver for C03 {
    fn id(&self) -> &'static str {
        "C03"
    }
    fn sandboxed(&self) -> bool {
        true
    }
    fn cpu_budget_s(&self) -> f64 {
        10.0
    }
    fn units(&self, tier: Tier) -> usize {
        tier.pick(6000, 400000)
    }
    fn run_unit(&self, ctx: &Ctx, out: &mut UnitOut, start: usize, only: Option<usize>) {
        let mut rng = unit_rng(ctx, "C03", out.unit);
        for case in 0..10 {
            let stratum = [Stratum::Mixed, Stratum::Affine, Stratum::Piecewise, Stratum::Logic, Stratum::TightenedDiscrete][rng.gen_range(0..5)];
            let mut m = gen_model(&mut rng, stratum);
            bound_domains(&mut m, &mut rng);
            if rng.gen_bool(0.1) {
                let _ = crate::props::c07::add_inexact_row(&mut m, &mut rng);
            }
            // simple names only: compound names (x_0) go through the indexing machinery (C06)
            m.names = (0..m.n()).map(|i| ["x", "y", "z", "w"][i].to_string()).collect();
            for c in m.cons.iter_mut() {
                if let Some(n) = &c.name {
                    if n.contains('_') {
                        c.name = Some(n.replace('_', ""));
                    }
                }
            }
            let style = Style::random(&mut rng);
            let text = model_text(&m, &mut rng, style);
            if case < start || only.is_some_and(|o| o != case) {
                continue;
            }
            let Some(grid) = enumeration_grid(&m, 4096) else {
                out.tag("grid-too-large");
                continue;
            };
            out.begin_case(case, &json!({"text": text}).to_string());
            let res = run_text(&text);
            out.end_case();
            out.eval();
            // reference: enumerate
            let mut best: Option<(Q, Vec<Q>)> = None;
            let mut any_undefined = false;
            for p in &grid {
                match m.feasible(p, &zero()) {
                    Feas::Yes => {
                        let v = if m.sense == Sense::Satisfy { Ok(zero()) } else { m.obj.eval(p) };
                        match v {
                            Ok(v) => {
                                let take = match &best {
                                    None => true,
                                    Some((bv, _)) => better(m.sense, &v, bv, &zero()),
                                };
                                if take {
                                    best = Some((v, p.clone()));
                                }
                            }
                            Err(_) => any_undefined = true,
                        }
                    }
                    Feas::Undefined => any_undefined = true,
                    Feas::No => {}
                }
            }
            if any_undefined {
                out.inconclusive("source undefined somewhere on the grid");
                continue;
            }
            let all_discrete = m.types.iter().all(|t| t.is_discrete());
            let detail = |extra: Value| json!({"text": text, "model": m.show(), "reference_best": best.as_ref().map(|(v, p)| json!({"value": show(v), "point": show_vec(p)})), "observed": extra});
            let tol = tol6();
            match res {
                EndToEnd::Solved(sol) => {
                    out.tag("outcome:solved");
                    // (i) returned values satisfy the text
                    let mut p: Vec<Q> = vec![];
                    let mut missing = None;
                    for n in &m.names {
                        match sol.names.iter().position(|x| x == n) {
                            Some(j) => p.push(q(sol.values[j]).unwrap_or_else(zero)),
                            None => {
                                // a declared variable that the text never uses is dropped by design
                                missing = Some(n.clone());
                                p.push(zero());
                            }
                        }
                    }
                    if let Some(n) = &missing {
                        let idx = m.names.iter().position(|x| x == n).unwrap();
                        if m.vars_used().contains(&idx) {
                            out.violation("solution-misses-used-variable", &format!("variable {n} occurs in the text but has no value"), detail(sol_json(&sol)));
                            continue;
                        }
                        // pick any in-domain value for unused variables
                        for (i, name) in m.names.iter().enumerate() {
                            if !sol.names.contains(name) {
                                let (lo, _) = m.types[i].bounds();
                                p[i] = q(lo).unwrap_or_else(zero);
                                if m.types[i].is_discrete() {
                                    p[i] = p[i].ceil();
                                }
                            }
                        }
                    }
                    // snap integers that are within 1e-6 of an integer
                    for (i, t) in m.types.iter().enumerate() {
                        if t.is_discrete() {
                            let r = p[i].round();
                            if (&p[i] - &r).abs() <= tol {
                                p[i] = r;
                            }
                        }
                    }
                    match m.feasible(&p, &tol) {
                        Feas::Yes => {}
                        _ => {
                            out.violation(
                                &format!("returned-values-violate-text({})", if m.has_piecewise() { "piecewise" } else if m.has_logic() { "logic" } else { "affine" }),
                                "the returned variable values do not satisfy the constraints of the source text",
                                detail(sol_json(&sol)),
                            );
                            continue;
                        }
                    }
                    if m.sense != Sense::Satisfy {
                        let Ok(objv) = m.obj.eval(&p) else {
                            out.inconclusive("objective undefined at the returned point");
                            continue;
                        };
                        let rep = q(sol.value).unwrap_or_else(zero);
                        let scale = qmax(&one(), &objv.abs());
                        if (&rep - &objv).abs() > &tol * &scale * qi(10) {
                            out.violation(
                                "reported-objective-differs-from-text-objective",
                                &format!("reported objective {} but the text's objective at the returned values is {}", sol.value, show(&objv)),
                                detail(sol_json(&sol)),
                            );
                            continue;
                        }
                        if let Some((bv, bp)) = &best {
                            if better(m.sense, bv, &objv, &(&tol * &scale * qi(10))) {
                                out.violation(
                                    &format!("not-optimal({})", if m.has_piecewise() { "piecewise" } else if m.has_logic() { "logic" } else { "affine" }),
                                    &format!("returned objective {} but assignment {} satisfies the text with objective {}", show(&objv), show_vec(bp), show(bv)),
                                    detail(sol_json(&sol)),
                                );
                                continue;
                            }
                        }
                    }
                    if all_discrete && best.is_none() {
                        out.violation("solution-for-unsatisfiable-text", "a solution was returned but no assignment satisfies the text", detail(sol_json(&sol)));
                        continue;
                    }
                    out.tag("agree:solved");
                    out.nontrivial(hash_str(&text));
                    if out.report.samples.is_empty() && out.unit < 4 {
                        out.sample(json!({"text": text, "solution": sol_json(&sol)}));
                    }
                }
                EndToEnd::Infeasible => {
                    out.tag("outcome:infeasible");
                    if let Some((bv, bp)) = &best {
                        out.violation(
                            &format!("infeasible-verdict-for-satisfiable-text({})", if m.has_piecewise() { "piecewise" } else if m.has_logic() { "logic" } else { "affine" }),
                            &format!("the solver reports infeasible but {} satisfies the text (objective {})", show_vec(bp), show(bv)),
                            detail(json!("Infeasible")),
                        );
                    } else {
                        out.tag("agree:infeasible");
                        out.nontrivial(hash_str(&text));
                    }
                }
                EndToEnd::Unbounded => {
                    out.violation("unbounded-with-bounded-domains", "Unbounded reported although every domain is bounded", detail(json!("Unbounded")));
                }
                EndToEnd::ParseError(e) => {
                    out.violation("in-fragment-text-rejected(parse)", &format!("parse error on a generated in-fragment text: {}", e.lines().next().unwrap_or("")), detail(json!(e)));
                }
                EndToEnd::TransformError(e) => {
                    let class: String = e.chars().take(40).collect();
                    out.violation(&format!("in-fragment-text-rejected(transform:{})", class.split(['"', ':']).next().unwrap_or("").trim()), &format!("transform/type error: {e}"), detail(json!(e)));
                }
                EndToEnd::LinearizationError(e) => {
                    let class: String = e.split(['"', ':']).next().unwrap_or("").trim().to_string();
                    out.violation(&format!("in-fragment-text-rejected(linearization:{class})"), &format!("linearization error: {e}"), detail(json!(e)));
                }
                EndToEnd::SolverError(k) => {
                    out.violation(&format!("solver-error({k})"), &format!("the default solver ended with {k}"), detail(json!(k)));
                }
                EndToEnd::Panicked(msg) => {
                    out.inconclusive("panic (C18's concern)");
                    let _ = msg;
                }
            }
        }
    }
    fn on_crash(&self, _c: &Crash) -> Option<(String, String)> {
        None
    }
    fn rule(&self) -> String {
        "source texts generated from the harness AST (strata mixed/affine/piecewise/logic/tightened-discrete, every domain bounded, <=2 continuous variables) with random layout: keyword or symbol operators, implicit multiplication, all{}/any{} blocks, redundant parentheses, where-constants, named constraints, comments, 's.t.'/'subject to'; each text is compiled and solved by RoocSolver::try_new(text).solve_using(auto_solver) in a sacrificial worker; reference = the harness's exact evaluator over the full grid of discrete values x quarter steps of continuous ones (<=4096 points). non-trivial = verdict (solution or infeasible) confirmed by the reference".into()
    }
    fn thresholds(&self, tier: Tier) -> Thresholds {
        let s = tier.pick(8, 120);
        Thresholds {
            min_tags: vec![("agree:solved", 2500 * s), ("agree:infeasible", 800 * s)],
            min_nontrivial: 3000 * s,
        }
    }
    fn assumptions(&self) -> Vec<String> {
        vec![
            "with continuous variables optimality is refuted only by quarter-grid points (sound, incomplete); C01/C02 carry the exact continuous part".into(),
            "strict comparisons are excluded (no built-in solver accepts them)".into(),
        ]
    }
}
