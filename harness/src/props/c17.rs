//! C17 - LP export denotes the same model.
use crate::gen_lp::*;
use crate::lpfmt::*;
use crate::runner::*;
use rooc::LinearModel;
use serde_json::json;

pub struct C17;

pub fn check_lp_export(lm: &LinearModel) -> Result<(), (String, String)> {
    let text = lm.to_lp_format();
    let rd = read_lp(&text).map_err(|e| ("unreadable".to_string(), format!("LP text not readable: {e}")))?;
    let vars = lm.variables();
    // sense
    let want_max = *lm.optimization_type() == rooc::OptimizationType::Max;
    if rd.maximize != want_max {
        return Err(("sense-mismatch".into(), format!("sense read as maximize={}", rd.maximize)));
    }
    // objective
    for (j, v) in vars.iter().enumerate() {
        let got = rd.obj.get(v).copied().unwrap_or(0.0);
        if got != lm.objective()[j] {
            return Err((
                "objective-coefficient-mismatch".into(),
                format!("objective coefficient of {v}: model {} vs LP text {}", lm.objective()[j], got),
            ));
        }
    }
    for k in rd.obj.keys() {
        if !vars.contains(k) {
            return Err(("unknown-variable".into(), format!("objective mentions unknown variable {k}")));
        }
    }
    if rd.obj_const != lm.objective_offset() {
        return Err((
            "objective-constant-mismatch".into(),
            format!("objective constant: model {} vs LP text {}", lm.objective_offset(), rd.obj_const),
        ));
    }
    // rows
    if rd.rows.len() != lm.constraints().len() {
        return Err((
            "row-count-mismatch".into(),
            format!("{} rows in the model, {} in the LP text", lm.constraints().len(), rd.rows.len()),
        ));
    }
    let mut seen = std::collections::HashMap::new();
    for (i, (r, c)) in rd.rows.iter().zip(lm.constraints()).enumerate() {
        let name = r.name.clone().unwrap_or_default();
        if name.is_empty() {
            return Err(("row-without-name".into(), format!("row {i} has no name in the LP text")));
        }
        if let Some(prev) = seen.insert(name.clone(), i) {
            let user = !c.name().is_empty() || !lm.constraints()[prev].name().is_empty();
            let sig = if user {
                "generated-name-collides(c<i>)"
            } else {
                "duplicate-generated-names"
            };
            return Err((
                sig.into(),
                format!("rows {prev} and {i} are both called '{name}' in the LP text"),
            ));
        }
        if !c.name().is_empty() && c.name() != name {
            return Err((
                "user-row-name-changed".into(),
                format!("row {i} named '{}' exported as '{name}'", c.name()),
            ));
        }
        let want_rel = match c.constraint_type() {
            rooc::Comparison::LessOrEqual => "<=",
            rooc::Comparison::GreaterOrEqual => ">=",
            rooc::Comparison::Equal => "=",
            // the LP format has no strict relations: the closed row is the nearest thing it can say
            rooc::Comparison::Less => "<=",
            rooc::Comparison::Greater => ">=",
        };
        if r.rel != want_rel {
            return Err(("row-relation-mismatch".into(), format!("row {i}: {} vs {}", want_rel, r.rel)));
        }
        if r.rhs != c.rhs() {
            return Err((
                "row-rhs-mismatch".into(),
                format!("row {i}: rhs {} read as {}", c.rhs(), r.rhs),
            ));
        }
        for (j, v) in vars.iter().enumerate() {
            let got = r.terms.get(v).copied().unwrap_or(0.0);
            if got != c.coefficients()[j] {
                return Err((
                    "row-coefficient-mismatch".into(),
                    format!("row {i} coefficient of {v}: model {} vs LP text {}", c.coefficients()[j], got),
                ));
            }
        }
        for k in r.terms.keys() {
            if !vars.contains(k) {
                return Err(("unknown-variable".into(), format!("row {i} mentions unknown variable {k}")));
            }
        }
    }
    // domains
    for v in vars {
        let dv = lm.domain().get(v).unwrap();
        let (lo, hi, kind) = crate::lin::vt_bounds(dv.get_type());
        let (rlo, rhi, rint) = rd.domain_of(v);
        let want_int = kind != crate::lin::Kind::Cont;
        if rint != want_int {
            return Err((
                "integrality-marking-mismatch".into(),
                format!("{v}: integer={want_int} in the model, {rint} in the LP text"),
            ));
        }
        if rlo != lo || rhi != hi {
            return Err((
                "bounds-mismatch".into(),
                format!("{v}: [{lo}, {hi}] in the model, [{rlo}, {rhi}] in the LP text"),
            ));
        }
    }
    for x in &rd.vars {
        if !vars.contains(x) {
            return Err(("unknown-variable".into(), format!("LP text mentions unknown variable {x}")));
        }
    }
    Ok(())
}

impl Driver for C17 {
    fn id(&self) -> &'static str {
        "C17"
    }
    fn units(&self, tier: Tier) -> usize {
        tier.pick(1600, 200000)
    }
    fn run_unit(&self, ctx: &Ctx, out: &mut UnitOut, _start: usize, only: Option<usize>) {
        let mut rng = unit_rng(ctx, "C17", out.unit);
        let opts = LpGenOpts {
            wide_coeffs: true,
            max_vars: 6,
            max_rows: 6,
            ..Default::default()
        };
        for case in 0..250 {
            let mut spec = gen_lm(&mut rng, &opts);
            {
                // constants, coefficients, right-hand sides and bounds of a few millionths are numbers like any other
                use rand::Rng;
                if spec.sense != "satisfy" && rng.gen_range(0..8) == 0 {
                    spec.offset = [0.000004, -0.0000002, 0.00000951, -0.000003][rng.gen_range(0..4)];
                }
                if rng.gen_range(0..10) == 0 && !spec.rows.is_empty() {
                    // strict rows (accepted by the model API, the builder and the text language)
                    let i = rng.gen_range(0..spec.rows.len());
                    spec.rows[i].rel = ["<", ">"][rng.gen_range(0..2)].to_string();
                }
                if rng.gen_range(0..10) == 0 && !spec.rows.is_empty() && !spec.vars.is_empty() {
                    let (i, j) = (rng.gen_range(0..spec.rows.len()), rng.gen_range(0..spec.vars.len()));
                    spec.rows[i].a[j] = [0.000004, -0.0000002, 0.0000095][rng.gen_range(0..3)];
                    if rng.gen_bool(0.5) {
                        spec.rows[i].b = [0.000003, -0.0000007][rng.gen_range(0..2)];
                    }
                    if spec.sense != "satisfy" {
                        spec.obj[j] = [0.000002, -0.0000061][rng.gen_range(0..2)];
                    }
                }
            }
            // every fifth case: a model compiled by the Linearizer from a source whose variables are
            // declared out of alphabetical order (the column list is sorted, the domain is not)
            let compiled: Option<LinearModel> = if case % 5 == 4 {
                use rand::seq::SliceRandom;
                use rand::Rng;
                let stratum = crate::gen_model::STRATA[rng.gen_range(0..crate::gen_model::STRATA.len())];
                let mut m = crate::gen_model::gen_model(&mut rng, stratum);
                let mut names = ["zeta", "alpha", "mid", "beta", "omega", "x"].to_vec();
                names.shuffle(&mut rng);
                for (i, n) in m.names.iter_mut().enumerate() {
                    *n = names[i].to_string();
                }
                match crate::compile::compile_m(&m) {
                    crate::compile::Compiled::Ok(lm) => Some(lm),
                    _ => None,
                }
            } else {
                None
            };
            if let Some(o) = only {
                if o != case {
                    continue;
                }
            }
            out.case = case;
            out.eval();
            if let Some(lm) = &compiled {
                spec = LmSpec::from_rooc(lm);
                out.tag("from-linearizer");
                if lm.variables().iter().zip(lm.domain().keys()).any(|(a, b)| a != b) {
                    out.tag("from-linearizer:column-order-differs-from-domain-order");
                }
            }
            let lm = match compiled {
                Some(lm) => lm,
                None => spec.to_rooc(),
            };
            let nontrivial = !spec.rows.is_empty();
            if nontrivial {
                out.nontrivial(spec.shape_hash());
            }
            if spec.rows.iter().any(|r| r.name.is_empty()) && spec.rows.iter().any(|r| !r.name.is_empty()) {
                out.tag("mixed-named-unnamed-rows");
            }
            if spec.offset != 0.0 {
                out.tag("nonzero-offset");
            }
            if spec.sense == "satisfy" {
                out.tag("satisfy");
            }
            if spec.vars.iter().any(|(_, t)| matches!(t, VSpec::Real(None, None))) {
                out.tag("free-variable");
            }
            if spec.vars.iter().any(|(_, t)| matches!(t, VSpec::Real(Some(l), _) if *l < 0.0)) {
                out.tag("negative-lower-bound");
            }
            if spec.rows.iter().any(|r| r.a.iter().all(|c| *c == 0.0)) {
                out.tag("zero-row");
            }
            if spec.vars.iter().any(|(_, t)| matches!(t, VSpec::Bool)) {
                out.tag("binary");
            }
            if spec.vars.iter().any(|(_, t)| matches!(t, VSpec::Int(..))) {
                out.tag("general-integer");
            }
            match std::panic::catch_unwind(|| check_lp_export(&lm)) {
                Ok(Ok(())) => {
                    out.tag("held");
                    if out.report.samples.is_empty() && out.unit < 16 {
                        out.sample(json!({"model": spec, "lp_text": lm.to_lp_format()}));
                    }
                }
                Ok(Err((sig, what))) => {
                    out.violation(&sig, &what, json!({"model": spec, "lp_text": lm.to_lp_format()}));
                }
                Err(_) => out.inconclusive("panic-in-export (reported under C18)"),
            }
        }
    }
    fn rule(&self) -> String {
        "random LinearModels built through the public API, and - every fifth case - linear models compiled by the Linearizer from G-model sources whose variables are declared out of alphabetical order (<=6 variables, <=6 rows; coefficients from small integers, halves, 1e-9..1e9; Boolean/IntegerRange/Real/NonNegativeReal with finite, half-infinite and infinite bounds; named/unnamed rows; offsets; min/max/satisfy); each is exported with to_lp_format() and read back by an independent LP-format reader; every number is compared exactly. distinct = structural hash of the model; non-trivial = at least one row One model in eight has an objective constant of a few millionths, one in ten a coefficient / right-hand side / cost of that size.".into()
    }
    fn thresholds(&self, _tier: Tier) -> Thresholds {
        Thresholds {
            min_tags: vec![
                ("held", 100000),
                ("mixed-named-unnamed-rows", 10000),
                ("free-variable", 10000),
                ("zero-row", 5000),
                ("nonzero-offset", 10000),
                ("binary", 10000),
                ("general-integer", 10000),
                ("satisfy", 5000),
                ("from-linearizer:column-order-differs-from-domain-order", 5000),
            ],
            min_nontrivial: 100000,
        }
    }
    fn assumptions(&self) -> Vec<String> {
        vec![
            "the harness's LP reader implements the CPLEX LP conventions (default bounds [0,+inf), 'free', +/-infinity, Binary, General, objective constant)".into(),
            "strict rows are excluded (not representable in the format)".into(),
        ]
    }
}
