//! C20 - shadow prices are the sensitivities of the optimum.
//!
//! Oracle: the exact LP solver re-solves the model with one right-hand side moved by +-d and
//! +-d/2. Where the four difference quotients coincide, the optimal value is differentiable in
//! that right-hand side and the common slope is the shadow price every dual-optimal solution has
//! to report; where they do not (degenerate optimum), the row is skipped.
use crate::ast::*;
use crate::gen_lp::*;
use crate::lin::*;
use crate::lp::*;
use crate::rat::*;
use crate::runner::*;
use num_traits::{Signed, Zero};
use rand::Rng;
use rand_chacha::ChaCha8Rng;
use serde_json::{Value, json};
use std::panic::{AssertUnwindSafe, catch_unwind};

pub struct C20;

fn gen_named_lp(rng: &mut ChaCha8Rng) -> LmSpec {
    let mut spec = gen_lm(
        rng,
        &LpGenOpts { continuous_only: true, allow_satisfy: false, named_rows: true, moderate_coeffs: false, max_vars: 5, max_rows: 5, ..Default::default() },
    );
    // most rows named (unique names), a few left unnamed on purpose
    for (i, r) in spec.rows.iter_mut().enumerate() {
        if r.name.is_empty() && rng.gen_bool(0.7) {
            r.name = format!("n{i}");
        }
    }
    // names are free-form: underscores in front, in the middle, doubled
    if rng.gen_bool(0.15) {
        let odd = ["__cap", "_lim", "__r__2", "a__b", "row__", "___"];
        for r in spec.rows.iter_mut() {
            if !r.name.is_empty() && rng.gen_bool(0.5) {
                r.name = format!("{}{}", odd[rng.gen_range(0..odd.len())], r.name);
            }
        }
    }
    // one model in ten gives three or more rows the same name (the compiler renames them name, name__2, ...)
    if spec.rows.len() >= 3 && rng.gen_bool(0.1) {
        let k = rng.gen_range(3..=spec.rows.len());
        for r in spec.rows.iter_mut().take(k) {
            r.name = "dup".to_string();
        }
    }
    // one model in eight lives in other units: objective in millionths, or rows in millions
    match rng.gen_range(0..16) {
        0 => {
            for c in spec.obj.iter_mut() {
                *c *= 1e-6;
            }
            spec.offset *= 1e-6;
        }
        1 => {
            for r in spec.rows.iter_mut() {
                for a in r.a.iter_mut() {
                    *a *= 1e6;
                }
                r.b *= 1e6;
            }
        }
        2 => {
            // costs in the hundreds of thousands
            for c in spec.obj.iter_mut() {
                *c *= 1e5;
            }
            spec.offset *= 1e5;
        }
        _ => {}
    }
    // bounded boxes make an optimum likely
    for (_, t) in spec.vars.iter_mut() {
        if rng.gen_bool(0.6) {
            match t {
                VSpec::Real(lo, hi) => {
                    if lo.is_none() {
                        *lo = Some(-(rng.gen_range(0..=6) as f64));
                    }
                    if hi.is_none() {
                        *hi = Some(lo.unwrap() + rng.gen_range(1..=8) as f64);
                    }
                }
                VSpec::NonNeg(lo, hi) => {
                    if hi.is_none() {
                        *hi = Some(*lo + rng.gen_range(1..=8) as f64);
                    }
                }
                _ => {}
            }
        }
    }
    spec
}

fn optimum(lp: &Lp) -> Option<Q> {
    match solve_lp(lp) {
        Ok(LpAnswer::Optimal { value, .. }) => Some(value),
        _ => None,
    }
}

/// Some(slope) when the optimal value is differentiable in the right-hand side of row i.
fn sensitivity(lp: &Lp, i: usize, base: &Q) -> Option<Q> {
    let mut slopes = vec![];
    for (num, den) in [(1i64, 8i64), (-1, 8), (1, 16), (-1, 16)] {
        let d = qi(num) / qi(den);
        let mut p = lp.clone();
        p.rows[i].b = &p.rows[i].b + &d;
        let v = optimum(&p)?;
        slopes.push((&v - base) / &d);
    }
    if slopes.iter().all(|s| *s == slopes[0]) { Some(slopes[0].clone()) } else { None }
}

pub fn spec_to_m(spec: &LmSpec) -> M {
    let lin = |a: &[f64]| -> E {
        let mut e: Option<E> = None;
        for (j, c) in a.iter().enumerate() {
            if *c == 0.0 {
                continue;
            }
            let t = if *c == 1.0 { E::Var(j) } else { E::mul(E::Num(*c), E::Var(j)) };
            e = Some(match e {
                None => t,
                Some(p) => E::add(p, t),
            });
        }
        e.unwrap_or(E::Num(0.0))
    };
    M {
        names: spec.vars.iter().map(|(n, _)| n.clone()).collect(),
        types: spec
            .vars
            .iter()
            .map(|(_, t)| match t {
                VSpec::Bool => VT::Bool,
                VSpec::Int(a, b) => VT::Int(*a, *b),
                VSpec::Real(a, b) => VT::Real(a.unwrap_or(f64::NEG_INFINITY), b.unwrap_or(f64::INFINITY)),
                VSpec::NonNeg(a, b) => VT::NonNeg(*a, b.unwrap_or(f64::INFINITY)),
            })
            .collect(),
        cons: spec
            .rows
            .iter()
            .map(|r| Con {
                name: if r.name.is_empty() { None } else { Some(r.name.clone()) },
                kind: CKind::Cmp(
                    lin(&r.a),
                    match r.rel.as_str() {
                        "<=" => Cmp::Le,
                        ">=" => Cmp::Ge,
                        _ => Cmp::Eq,
                    },
                    E::Num(r.b),
                ),
            })
            .collect(),
        sense: if spec.sense == "min" { Sense::Min } else { Sense::Max },
        obj: if spec.offset != 0.0 { E::add(lin(&spec.obj), E::Num(spec.offset)) } else { lin(&spec.obj) },
    }
}

enum Reported {
    Prices(Vec<(String, f64)>, f64),
    NoAnswer(String),
    Panic(String),
}

fn door(which: &str, spec: &LmSpec, lm: &rooc::LinearModel) -> Reported {
    let r = catch_unwind(AssertUnwindSafe(|| match which {
        "linear-model" => match rooc::solve_real_lp_problem_clarabel(lm) {
            Ok(s) => Reported::Prices(s.shadow_prices().iter().map(|(k, v)| (k.clone(), *v)).collect(), s.value()),
            Err(e) => Reported::NoAnswer(crate::solve::map_err(e).kind()),
        },
        "builder" => {
            let (mb, _) = spec_to_m(spec).to_builder();
            match mb.solve_with(rooc::Clarabel) {
                Ok(bs) => {
                    let mut v = vec![];
                    for (i, r) in spec.rows.iter().enumerate() {
                        let k = spec.rows[..i].iter().filter(|q| q.name == r.name && q.a.iter().any(|c| *c != 0.0)).count();
                        let name = if r.name.is_empty() || k == 0 { r.name.clone() } else { format!("{}__{}", r.name, k + 1) };
                        if let Some(p) = bs.shadow_price(&name) {
                            if !v.iter().any(|(n, _): &(String, f64)| *n == name) {
                                v.push((name, p));
                            }
                        }
                    }
                    // anything else the underlying solution lists
                    for (k, p) in bs.solution().shadow_prices() {
                        if !v.iter().any(|(n, _)| n == k) {
                            v.push((k.clone(), *p));
                        }
                    }
                    Reported::Prices(v, bs.value())
                }
                Err(rooc::BuilderError::Solver(e)) => Reported::NoAnswer(crate::solve::map_err(e).kind()),
                Err(rooc::BuilderError::Linearization(e)) => Reported::NoAnswer(format!("linearization: {e}")),
            }
        }
        _ => {
            // source text through RoocSolver
            let mut r2 = rand::SeedableRng::seed_from_u64(7);
            let text = crate::text::model_text(&spec_to_m(spec), &mut r2, crate::text::Style::plain());
            match rooc::RoocSolver::try_new(text.clone()) {
                Err(e) => Reported::NoAnswer(format!("parse: {}", e.to_string_from_source(&text))),
                Ok(s) => match s.solve_using(rooc::solve_real_lp_problem_clarabel) {
                    Ok(s) => Reported::Prices(s.shadow_prices().iter().map(|(k, v)| (k.clone(), *v)).collect(), s.value()),
                    Err(rooc::RoocSolverError::Solver(e)) => Reported::NoAnswer(crate::solve::map_err(e).kind()),
                    Err(e) => Reported::NoAnswer(format!("{e}")),
                },
            }
        }
    }));
    r.unwrap_or_else(|p| Reported::Panic(crate::compile::panic_msg(p)))
}

/// Structural precondition of the known finding: the compiler copied derived bounds into the
/// domain of the linear model (or dropped a row), so the model handed to the solver is not the
/// user's model row for row and dual weight can sit on bounds the user never wrote.
fn compiled_differs(spec: &LmSpec) -> Option<(&'static str, rooc::LinearModel)> {
    let (mb, _) = spec_to_m(spec).to_builder();
    let lm = catch_unwind(AssertUnwindSafe(|| mb.linearize())).ok()?.ok()?;
    let mut tightened = false;
    for (n, t) in &spec.vars {
        let Some(d) = lm.domain().get(n) else { continue };
        let (lo, hi, _) = vt_bounds(d.get_type());
        let (dlo, dhi, _) = vt_bounds(&t.to_rooc());
        if lo > dlo || hi < dhi {
            tightened = true;
        }
    }
    if tightened {
        return Some(("derived-bounds-copied-into-domain", lm));
    }
    if lm.constraints().len() != spec.rows.len() {
        return Some(("row-removed-by-the-compiler", lm));
    }
    None
}

/// One-sided slopes of the optimal value of the compiled model in the right-hand side of the row
/// called `name`: every dual-optimal price of that model lies between them.
fn compiled_subdifferential(lm: &rooc::LinearModel, name: &str) -> Option<(Q, Q)> {
    let xl = XLin::from_rooc(lm).ok()?;
    let lp = xl.to_lp();
    let i = xl.rows.iter().position(|r| r.name == name)?;
    let base = optimum(&lp)?;
    let side = |sign: i64| -> Option<Q> {
        let mut v = vec![];
        for den in [16i64, 32] {
            let d = qi(sign) / qi(den);
            let mut p = lp.clone();
            p.rows[i].b = &p.rows[i].b + &d;
            v.push((&optimum(&p)? - &base) / &d);
        }
        if v[0] == v[1] { Some(v[0].clone()) } else { None }
    };
    let (a, c) = (side(-1)?, side(1)?);
    Some(if a <= c { (a, c) } else { (c, a) })
}

const DOORS: [&str; 3] = ["linear-model", "builder", "text"];

impl Driver for C20 {
    fn id(&self) -> &'static str {
        "C20"
    }
    fn sandboxed(&self) -> bool {
        true
    }
    fn cpu_budget_s(&self) -> f64 {
        10.0
    }
    fn units(&self, tier: Tier) -> usize {
        tier.pick(6400, 200000)
    }
    fn run_unit(&self, ctx: &Ctx, out: &mut UnitOut, start: usize, only: Option<usize>) {
        let mut rng = unit_rng(ctx, "C20", out.unit);
        for mi in 0..12 {
            let spec = gen_named_lp(&mut rng);
            let first = mi * DOORS.len();
            if first + DOORS.len() <= start || only.is_some_and(|o| o < first || o >= first + DOORS.len()) {
                continue;
            }
            let lm = spec.to_rooc();
            let Ok(xl) = XLin::from_rooc(&lm) else { continue };
            let lp = xl.to_lp();
            let Some(base) = optimum(&lp) else {
                out.tag("model-without-optimum");
                continue;
            };
            // exact sensitivities of every row
            let slopes: Vec<Option<Q>> = (0..lp.rows.len()).map(|i| sensitivity(&lp, i, &base)).collect();
            if slopes.iter().any(|s| s.is_none()) {
                out.tag("degenerate-or-kinked-optimum");
                // the property is stated for non-degenerate optima only
                continue;
            }
            out.tag("non-degenerate-optimum");
            for (di, which) in DOORS.iter().enumerate() {
                let this = first + di;
                if this < start || only.is_some_and(|o| o != this) {
                    continue;
                }
                let desc = json!({"door": which, "model": spec});
                out.begin_case(this, &desc.to_string());
                let rep = door(which, &spec, &lm);
                out.end_case();
                out.eval();
                let detail = |extra: Value| {
                    json!({"door": which, "model": spec, "model_text": lm.to_string(), "exact_optimum": show(&base),
                    "exact_sensitivities": spec.rows.iter().zip(&slopes).map(|(r, s)| format!("{}: {}", if r.name.is_empty() { "(unnamed)" } else { &r.name }, show(s.as_ref().unwrap()))).collect::<Vec<_>>(),
                    "reported": extra})
                };
                // the compiler de-duplicates row names: the k-th row called n is reported as n__k
                let has_dups = spec.rows.iter().enumerate().any(|(i, r)| !r.name.is_empty() && spec.rows[..i].iter().any(|q| q.name == r.name));
                if has_dups && *which == "linear-model" {
                    // a hand-made LinearModel keeps the duplicate names and its price map can hold only one of them
                    out.tag("linear-model:duplicate-names-skipped");
                    continue;
                }
                let reported_names: Vec<String> = spec
                    .rows
                    .iter()
                    .enumerate()
                    .map(|(i, r)| {
                        // rows without variables are checked and removed at compile time: they do not count
                        let k = spec.rows[..i].iter().filter(|q| q.name == r.name && q.a.iter().any(|c| *c != 0.0)).count();
                        if r.name.is_empty() || k == 0 { r.name.clone() } else { format!("{}__{}", r.name, k + 1) }
                    })
                    .collect();
                if has_dups {
                    out.tag("duplicate-row-names");
                }
                match rep {
                    Reported::NoAnswer(k) => out.tag(&format!("{which}:no-answer:{}", k.split(':').next().unwrap_or(""))),
                    Reported::Panic(p) => out.inconclusive(&format!("panic (C18's concern): {}", p.chars().take(40).collect::<String>())),
                    Reported::Prices(prices, value) => {
                        let fv = to_f64(&base);
                        if (value - fv).abs() > 1e-5 * fv.abs().max(1.0) {
                            out.inconclusive("Clarabel's optimum differs from the exact one (C05's concern)");
                            continue;
                        }
                        let reported = json!(prices.iter().map(|(n, p)| format!("{n}: {p}")).collect::<Vec<_>>());
                        let mut bad = false;
                        // interior-point duals are accurate relative to the largest price of the model
                        // (1e-5 times the largest exact price, at least 1e-5)
                        let largest = slopes.iter().map(|s| to_f64(s.as_ref().unwrap()).abs()).fold(0.0f64, f64::max);
                        // tiny-price models: the interior-point residue (about 2e-7 absolute) is of the size of the
                        // prices themselves, so only a coarse comparison (30% of the largest price) is possible there
                        // prices scale with the costs: residue on inactive rows does too
                        let cost_scale = spec.obj.iter().fold(0.0f64, |m, c| m.max(c.abs()));
                        let price_scale = if largest > 0.0 && largest < 1e-4 { (0.3e5 * largest).max(0.1) } else { largest.max(cost_scale).max(1.0) };
                        if largest > 0.0 && largest < 1e-4 {
                            out.tag("tiny-price-model");
                        }
                        let pre = if *which == "linear-model" { None } else { compiled_differs(&spec) };
                        // unnamed rows report none; nothing but the model's named rows is listed
                        for (n, _) in &prices {
                            if n.is_empty() || !reported_names.iter().any(|r| r == n) {
                                out.violation(&format!("{which}:shadow-price-for-unknown-or-unnamed-row"), &format!("a shadow price is reported under the name '{n}'"), detail(reported.clone()));
                                bad = true;
                            }
                        }
                        for ((r0, s), rname) in spec.rows.iter().zip(&slopes).zip(&reported_names) {
                            if r0.name.is_empty() {
                                continue;
                            }
                            if has_dups && r0.a.iter().all(|c| *c == 0.0) {
                                // removed at compile time; its would-be name belongs to the next row of that name
                                continue;
                            }
                            let mut r = r0.clone();
                            r.name = rname.clone();
                            let r = &r;
                            let want = s.as_ref().unwrap();
                            let wf = to_f64(want);
                            let class = format!("{}{}:{}", spec.sense, r.rel, if want.is_zero() { "inactive" } else if want.is_positive() { "positive" } else { "negative" });
                            match prices.iter().find(|(n, _)| *n == r.name) {
                                None => {
                                    let sig = if r.a.iter().all(|c| *c == 0.0) && *which != "linear-model" { format!("{which}:named-constant-row-has-no-shadow-price") } else { format!("{which}:named-row-without-shadow-price") };
                                    out.violation(&sig, &format!("row '{}' has no shadow price", r.name), detail(reported.clone()));
                                    bad = true;
                                }
                                Some((_, got)) => {
                                    if (got - wf).abs() <= 1e-5 * price_scale {
                                        out.tag("price-agrees");
                                        out.tag(&format!("price-agrees:{class}"));
                                    } else {
                                        let kind = if (got + wf).abs() <= 1e-5 * price_scale { "sign-flipped" } else if wf == 0.0 { "nonzero-on-inactive-row" } else if *got == 0.0 { "zero-on-active-row" } else { "wrong-magnitude" };
                                        let sig = match &pre {
                                            Some((p, compiled)) => match compiled_subdifferential(compiled, &r.name) {
                                                // a valid dual price of the compiled model: the compiler changed the sensitivities
                                                Some((lo, hi)) if *got >= to_f64(&lo) - 1e-5 * to_f64(&lo).abs().max(1.0) && *got <= to_f64(&hi) + 1e-5 * to_f64(&hi).abs().max(1.0) => {
                                                    format!("{which}:shadow-price-differs-from-sensitivity({p})")
                                                }
                                                Some(_) => format!("{which}:shadow-price-{kind}-and-not-a-dual-price-of-the-compiled-model({}{})", spec.sense, r.rel),
                                                None => {
                                                    out.inconclusive("compiled model: one-sided sensitivities undecided");
                                                    continue;
                                                }
                                            },
                                            None => format!("{which}:shadow-price-{kind}({}{})", spec.sense, r.rel),
                                        };
                                        out.violation(
                                            &sig,
                                            &format!("row '{}': reported {got}, the optimum changes by {} per unit of right-hand side", r.name, show(want)),
                                            detail(reported.clone()),
                                        );
                                        bad = true;
                                    }
                                }
                            }
                        }
                        if !bad {
                            out.tag(&format!("{which}:all-prices-agree"));
                            out.nontrivial(hash_str(&format!("{which}|{}", spec.shape_hash())));
                            if out.report.samples.is_empty() && out.unit < 4 && !prices.is_empty() {
                                out.sample(detail(reported));
                            }
                        }
                    }
                }
            }
        }
    }
    fn on_crash(&self, c: &Crash) -> Option<(String, String)> {
        Some((format!("never-returns({})", c.kind), format!("worker ended with {}", c.kind)))
    }
    fn rule(&self) -> String {
        "continuous LPs (<=5 variables, <=5 rows, named and unnamed rows, <=, >= and = rows, min and max, offsets, free / bounded / half-bounded variables). The exact rational LP solver computes the optimum and, for every row, the four difference quotients of the optimal value for right-hand side changes of +-1/8 and +-1/16; a model is used only when all four coincide for every row (value differentiable in every right-hand side: the dual solution is unique). Three doors: solve_real_lp_problem_clarabel on the LinearModel, ModelBuilder::solve_with(Clarabel) + shadow_price(name), source text through RoocSolver. Every named row must carry a price equal to the exact slope within 1e-5 of the larger of the model's largest price and largest cost coefficient (at least 1e-5 absolute); one model in eight has its objective scaled by 1e-6 or its rows by 1e6 so that genuine prices of 1e-6 occur, one in sixteen has its costs multiplied by 1e5 - there the comparison is coarse: within 30% of the largest price and never finer than 1e-6, enough to see a price that was dropped, zeroed or flipped (inactive rows: 0), no price may be listed for an unnamed or unknown row; one model in ten names three or more rows alike, the k-th of them must be reported as name__k (builder and text doors). non-trivial = distinct (door, model) with all prices confirmed 15% of the models prefix row names with underscores (__cap, _lim, a__b, ___).".into()
    }
    fn thresholds(&self, tier: Tier) -> Thresholds {
        let s = tier.pick(4, 40);
        Thresholds {
            min_tags: vec![
                ("non-degenerate-optimum", 1500 * s),
                ("price-agrees", 5000 * s),
                ("price-agrees:min<=:negative", 50 * s),
                ("price-agrees:min>=:positive", 50 * s),
                ("price-agrees:max<=:positive", 50 * s),
                ("price-agrees:max>=:negative", 50 * s),
                ("price-agrees:min=:positive", 20 * s),
                ("price-agrees:min=:negative", 20 * s),
                ("price-agrees:max=:positive", 20 * s),
                ("price-agrees:max=:negative", 20 * s),
                ("price-agrees:min<=:inactive", 50 * s),
                ("price-agrees:max>=:inactive", 50 * s),
                ("linear-model:all-prices-agree", 800 * s),
                ("builder:all-prices-agree", 300 * s),
                ("text:all-prices-agree", 300 * s),
                ("tiny-price-model", 20 * s),
                ("duplicate-row-names", 50 * s),
            ],
            min_nontrivial: 1500 * s,
        }
    }
    fn assumptions(&self) -> Vec<String> {
        vec![
            "the property's precondition (unique non-degenerate optimum) is decided as: the exact optimal value is affine in each row's right-hand side on [-1/8, 1/8]".into(),
            "Clarabel is an interior-point method: prices are compared with a tolerance of 1e-5 times the largest exact price of the model (at least 1)".into(),
        ]
    }
}
