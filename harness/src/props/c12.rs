//! C12 - the rendering of a compiled model / linear model is a valid program with the same meaning.
use crate::ast::*;
use crate::compile::*;
use crate::gen_lp::*;
use crate::gen_model::*;
use crate::lin::*;
use crate::lp::*;
use crate::rat::*;
use crate::runner::*;
use indexmap::IndexMap;
use num_traits::{Signed, Zero};
use rand::Rng;
use rooc::{LinearModel, RoocParser};
use serde_json::{Value, json};

pub struct C12;

pub enum Recompiled {
    Ok(LinearModel),
    ParseOrTransform(String),
    TypeCheck(String),
    Linearize(String),
    Panicked(String),
}

pub fn compile_text(text: &str) -> Recompiled {
    let r = std::panic::catch_unwind(|| {
        let parser = RoocParser::new(text.to_string());
        if let Err(e) = parser.type_check(&vec![], &IndexMap::new()) {
            return Recompiled::TypeCheck(e);
        }
        let model = match parser.parse_and_transform(vec![], &IndexMap::new()) {
            Ok(m) => m,
            Err(e) => return Recompiled::ParseOrTransform(e),
        };
        match rooc::Linearizer::linearize(model) {
            Ok(lm) => Recompiled::Ok(lm),
            Err(e) => Recompiled::Linearize(e.to_string()),
        }
    });
    match r {
        Ok(v) => v,
        Err(p) => Recompiled::Panicked(panic_msg(p)),
    }
}

fn close12(a: f64, b: f64) -> bool {
    // (an infinite value is only close to itself: inf <= 1e-12 * inf would hold for any partner)
    a == b || (a.is_finite() && b.is_finite() && (a - b).abs() <= 1e-12 * a.abs().max(b.abs()).max(1e-300))
}

type RowKey = (Vec<(String, f64)>, String, f64, String);

fn row_keys(lm: &LinearModel) -> Vec<RowKey> {
    lm.constraints()
        .iter()
        .map(|r| {
            let mut terms: Vec<(String, f64)> = lm
                .variables()
                .iter()
                .zip(r.coefficients())
                .filter(|(_, c)| **c != 0.0)
                .map(|(v, c)| (v.clone(), *c))
                .collect();
            terms.sort_by(|a, b| a.0.cmp(&b.0));
            (terms, r.constraint_type().to_string(), r.rhs(), r.name())
        })
        .collect()
}

fn same_row(a: &RowKey, b: &RowKey) -> bool {
    a.1 == b.1
        && close12(a.2, b.2)
        && a.3 == b.3
        && a.0.len() == b.0.len()
        && a.0.iter().zip(&b.0).all(|(x, y)| x.0 == y.0 && close12(x.1, y.1))
}

/// A linear model with the harmless re-spellings removed: constant rows become a truth value,
/// single-variable rows are folded into the variable's effective interval.
struct Normal {
    contradiction: bool,
    intervals: std::collections::BTreeMap<String, (Kind, f64, f64)>,
    rows: Vec<RowKey>,
}

fn normalize(lm: &LinearModel) -> Normal {
    let mut n = Normal { contradiction: false, intervals: Default::default(), rows: vec![] };
    for v in lm.variables() {
        let (lo, hi, k) = vt_bounds(lm.domain().get(v).unwrap().get_type());
        n.intervals.insert(v.clone(), (k, lo, hi));
    }
    for r in row_keys(lm) {
        match r.0.len() {
            0 => {
                let ok = match r.1.as_str() {
                    "<=" => 0.0 <= r.2,
                    ">=" => 0.0 >= r.2,
                    "=" => r.2 == 0.0,
                    "<" => 0.0 < r.2,
                    _ => 0.0 > r.2,
                };
                if !ok {
                    n.contradiction = true;
                }
            }
            1 => {
                let (v, c) = &r.0[0];
                let bound = r.2 / c;
                let e = n.intervals.get_mut(v).unwrap();
                let upper = (r.1 == "<=" && *c > 0.0) || (r.1 == ">=" && *c < 0.0);
                let lower = (r.1 == ">=" && *c > 0.0) || (r.1 == "<=" && *c < 0.0);
                if r.1 == "=" {
                    e.1 = e.1.max(bound);
                    e.2 = e.2.min(bound);
                } else if upper {
                    e.2 = e.2.min(bound);
                } else if lower {
                    e.1 = e.1.max(bound);
                } else {
                    n.rows.push(r.clone()); // strict rows are kept as they are
                }
            }
            _ => n.rows.push(r),
        }
    }
    for (_, e) in n.intervals.iter_mut() {
        if e.0 != Kind::Cont {
            e.1 = (e.1 - 1e-9).ceil();
            e.2 = (e.2 + 1e-9).floor();
        }
        if e.1 == 0.0 {
            e.1 = 0.0; // -0
        }
        if e.1 > e.2 + 1e-9 * e.1.abs().max(1.0) {
            n.contradiction = true;
        }
    }
    n
}

/// Compares two linear models up to row order and the harmless re-spellings above.
/// Ok(list of variables whose interval got tighter) or Err((signature, explanation)).
pub fn same_linear_model(a: &LinearModel, b: &LinearModel) -> Result<Vec<String>, (String, String)> {
    if a.optimization_type() != b.optimization_type() {
        return Err(("sense-differs".into(), format!("{} vs {}", a.optimization_type(), b.optimization_type())));
    }
    let used = |lm: &LinearModel, v: &String| -> bool {
        let j = lm.variables().iter().position(|x| x == v).unwrap();
        lm.objective()[j] != 0.0 || lm.constraints().iter().any(|r| r.coefficients()[j] != 0.0)
    };
    for v in a.variables() {
        if !b.variables().contains(v) && used(a, v) {
            return Err(("variable-lost".into(), format!("variable {v} is missing after the round trip")));
        }
    }
    for v in b.variables() {
        if !a.variables().contains(v) {
            return Err(("variable-appeared".into(), format!("variable {v} appeared after the round trip")));
        }
    }
    let satisfy = *a.optimization_type() == rooc::OptimizationType::Satisfy;
    if !satisfy && !close12(a.objective_offset(), b.objective_offset()) {
        return Err(("offset-differs".into(), format!("objective offset {} became {}", a.objective_offset(), b.objective_offset())));
    }
    for (j, v) in a.variables().iter().enumerate() {
        let ca = a.objective()[j];
        let cb = b.variables().iter().position(|x| x == v).map(|k| b.objective()[k]).unwrap_or(0.0);
        if !satisfy && !close12(ca, cb) {
            let sig = if ca != 0.0 && cb != 0.0 && ca.signum() != cb.signum() && close12(ca.abs(), cb.abs()) {
                "objective-coefficient-sign-flipped"
            } else {
                "objective-coefficient-differs"
            };
            return Err((sig.into(), format!("objective coefficient of {v}: {ca} became {cb}")));
        }
    }
    let na = normalize(a);
    let nb = normalize(b);
    if na.contradiction || nb.contradiction {
        // a model that is trivially infeasible on one side must be infeasible on the other
        let infeasible = |lm: &LinearModel| -> Option<bool> {
            let x = XLin::from_rooc(lm).ok()?;
            match solve_milp(&x.to_lp(), 5000) {
                Ok((LpAnswer::Infeasible, _)) => Some(true),
                Ok(_) => Some(false),
                Err(_) => None,
            }
        };
        // the rows that carry a contradiction (no variable, false) keep their names like every other row
        let false_rows = |lm: &LinearModel| -> Vec<String> {
            let mut v: Vec<String> = row_keys(lm)
                .into_iter()
                .filter(|r| r.0.is_empty() && !r.3.is_empty())
                .filter(|r| !match r.1.as_str() {
                    "<=" => 0.0 <= r.2,
                    ">=" => 0.0 >= r.2,
                    "=" => r.2 == 0.0,
                    "<" => 0.0 < r.2,
                    _ => 0.0 > r.2,
                })
                .map(|r| r.3)
                .collect();
            v.sort();
            v
        };
        let (fa, fb) = (false_rows(a), false_rows(b));
        // (the second compilation may turn further rows into named false rows - 'k: b = -0.5' over a Boolean b
        // becomes 'k: 0 = 1', part of the re-normalisation - but a false row that was already there stays as it is)
        if fa.iter().any(|n| !fb.contains(n)) {
            return Err(("contradiction-row-name-differs".into(), format!("named false rows {fa:?} became {fb:?}")));
        }
        return match (infeasible(a), infeasible(b)) {
            (Some(true), Some(true)) => Ok(vec![]),
            (Some(x), Some(y)) if x != y => Err((
                "infeasibility-differs".into(),
                format!("infeasible: {x} before, {y} after the round trip"),
            )),
            _ => Ok(vec![]),
        };
    }
    let mut rb = nb.rows.clone();
    if na.rows.len() != rb.len() {
        return Err(("row-count-differs".into(), format!("{} multi-variable rows became {}", na.rows.len(), rb.len())));
    }
    for r in &na.rows {
        match rb.iter().position(|x| same_row(r, x)) {
            Some(k) => {
                rb.swap_remove(k);
            }
            None => {
                let sign_only = rb.iter().any(|x| {
                    x.1 == r.1 && close12(x.2, r.2) && x.0.len() == r.0.len()
                        && x.0.iter().zip(&r.0).all(|(p, q_)| p.0 == q_.0 && close12(p.1.abs(), q_.1.abs()))
                });
                let name_only = rb.iter().any(|x| {
                    let mut y = x.clone();
                    y.3 = r.3.clone();
                    same_row(r, &y)
                });
                let sig = if sign_only { "row-coefficient-sign-flipped" } else if name_only { "row-name-differs" } else { "row-differs" };
                return Err((sig.into(), format!("row {:?} {} {} '{}' has no counterpart after the round trip", r.0, r.1, r.2, r.3)));
            }
        }
    }
    let mut tighter = vec![];
    for (v, (ka, la, ha)) in &na.intervals {
        let Some((kb, lb, hb)) = nb.intervals.get(v) else { continue };
        if ka != kb {
            return Err(("domain-kind-differs".into(), format!("{v}: {:?} became {:?}", ka, kb)));
        }
        let same = |x: f64, y: f64| close12(x, y) || (x.is_finite() && y.is_finite() && (x - y).abs() <= 1e-9 * x.abs().max(1.0));
        if same(*la, *lb) && same(*ha, *hb) {
            continue;
        }
        if *lb >= la - 1e-9 * la.abs().max(1.0) && *hb <= ha + 1e-9 * ha.abs().max(1.0) {
            tighter.push(v.clone());
        } else {
            return Err(("domain-widened".into(), format!("{v}: effective range [{la}, {ha}] became [{lb}, {hb}]")));
        }
    }
    Ok(tighter)
}

/// A tightened interval is harmless only if it still contains everything the original model allows.
fn tightening_is_sound(a: &LinearModel, b: &LinearModel, which: &[String]) -> Option<String> {
    let xa = XLin::from_rooc(a).ok()?;
    let lp = xa.to_lp();
    let nb = normalize(b);
    for v in which {
        let j = a.variables().iter().position(|x| x == v)?;
        let (_, lb, hb) = *nb.intervals.get(v)?;
        for maximize in [false, true] {
            let mut p = lp.clone();
            p.c = vec![zero(); p.vars.len()];
            p.c[j] = one();
            p.c0 = zero();
            p.maximize = maximize;
            let bound = if maximize { hb } else { lb };
            let Some(bq) = q(bound) else { continue };
            let slack = pow10_neg(9) * qmax(&one(), &bq.abs());
            let exceeds = |value: &Q| if maximize { *value > &bq + &slack } else { *value < &bq - &slack };
            // the relaxation bounds the true range; only if it exceeds the new bound is the MILP needed
            match solve_lp(&p) {
                Ok(LpAnswer::Optimal { value, .. }) if !exceeds(&value) => continue,
                Ok(LpAnswer::Infeasible) => return None,
                _ => {}
            }
            match solve_milp(&p, 3000) {
                Ok((LpAnswer::Optimal { value, .. }, _)) => {
                    if exceeds(&value) {
                        return Some(format!("{v} reaches {} in the original model but the re-compiled range is [{lb}, {hb}]", show(&value)));
                    }
                }
                Ok((LpAnswer::Unbounded { .. }, _)) => {
                    return Some(format!("{v} is unbounded in the original model but the re-compiled range is [{lb}, {hb}]"));
                }
                _ => {}
            }
        }
    }
    None
}

impl Driver for C12 {
    fn id(&self) -> &'static str {
        "C12"
    }
    fn units(&self, tier: Tier) -> usize {
        tier.pick(1600, 24000)
    }
    fn run_unit(&self, ctx: &Ctx, out: &mut UnitOut, _start: usize, only: Option<usize>) {
        let mut rng = unit_rng(ctx, "C12", out.unit);
        for case in 0..25 {
            let stratum = STRATA[rng.gen_range(0..STRATA.len())];
            let mut m = gen_model(&mut rng, stratum);
            // a bound that is declared after its use: a piecewise row whose other side is a variable bounded by a later row
            let mut family: Option<&'static str> = None;
            if rng.gen_bool(0.04) {
                let k = rng.gen_range(2..9) as f64;
                let (x, y, z) = (E::Var(0), E::Var(1), E::Var(2));
                let unb = VT::Real(f64::NEG_INFINITY, f64::INFINITY);
                let cmp = |l: E, c: Cmp, r: E| Con { name: None, kind: CKind::Cmp(l, c, r) };
                let (cons, label): (Vec<Con>, &'static str) = match rng.gen_range(0..5) {
                    0 => (vec![cmp(E::Abs(Box::new(x.clone())), Cmp::Le, y.clone()), cmp(y.clone(), Cmp::Le, E::Num(k))], "abs{x} <= y, then y <= k"),
                    1 => (vec![cmp(y.clone(), Cmp::Ge, E::Abs(Box::new(x.clone()))), cmp(y.clone(), Cmp::Le, E::Num(k))], "y >= abs{x}, then y <= k"),
                    2 => (vec![cmp(E::Max(vec![x.clone(), z.clone()]), Cmp::Le, y.clone()), cmp(y.clone(), Cmp::Le, E::Num(k))], "max{x, z} <= y, then y <= k"),
                    3 => (vec![cmp(E::Min(vec![x.clone(), z.clone()]), Cmp::Ge, y.clone()), cmp(y.clone(), Cmp::Ge, E::Num(-k))], "min{x, z} >= y, then y >= -k"),
                    _ => (vec![cmp(y.clone(), Cmp::Ge, E::Abs(Box::new(x.clone()))), cmp(x.clone(), Cmp::Ge, E::Num(k)), cmp(y.clone(), Cmp::Le, E::Num(k + 3.0))], "y >= abs{x}, then x >= k"),
                };
                m = M { names: vec!["x".into(), "y".into(), "z".into()], types: vec![unb, unb, unb], cons, sense: Sense::Min, obj: E::add(E::Var(1), E::Var(2)) };
                // z is only used by two of the shapes: keep it in a row of its own so that it is a column everywhere
                m.cons.push(Con { name: None, kind: CKind::Cmp(E::Var(2), Cmp::Ge, E::Num(-20.0)) });
                m.cons.push(Con { name: None, kind: CKind::Cmp(E::Var(2), Cmp::Le, E::Num(20.0)) });
                family = Some(label);
            }
            // coefficient magnitudes from 1e-9 to 1e9 and negative constants under unary minus
            if family.is_none() && rng.gen_bool(0.4) {
                let k = [1e-9, -1e-9, 3e-7, -0.000001, 1e9, -2.5e8, 123456.789, -0.1, 3e19, -2e20][rng.gen_range(0..10)];
                let nums: Vec<usize> = (0..m.n()).filter(|i| m.types[*i] != VT::Bool).collect();
                if let Some(&i) = nums.first() {
                    m.obj = E::add(m.obj.clone(), E::mul(E::Num(k), E::Var(i)));
                    m.cons.push(Con { name: None, kind: CKind::Cmp(E::mul(E::Num(k), E::Var(i)), Cmp::Le, E::Num(k.abs() * 3.0)) });
                    if rng.gen_bool(0.5) {
                        m.obj = E::add(m.obj.clone(), E::Num(k));
                    }
                }
                if m.sense == Sense::Satisfy {
                    m.sense = Sense::Min;
                }
            }
            // a named bare assertion that folds to false (the compiler carries it as the row 0 = 1)
            if family.is_none() && rng.gen_bool(0.06) {
                let bools: Vec<usize> = (0..m.n()).filter(|i| m.types[*i] == VT::Bool).collect();
                let e = match (rng.gen_range(0..3), bools.first()) {
                    (0, Some(&b)) => E::And(vec![E::Var(b), E::Num(0.0)]),
                    (1, _) => E::Not(Box::new(E::Num(1.0))),
                    _ => E::Num(0.0),
                };
                m.cons.push(Con { name: Some("never".into()), kind: CKind::Assert(e) });
            }
            // aggregations over nothing: an empty any is false, an empty all is true, and both have to be written somehow
            if family.is_none() && rng.gen_bool(0.05) {
                let bools: Vec<usize> = (0..m.n()).filter(|i| m.types[*i] == VT::Bool).collect();
                if let Some(&b) = bools.first() {
                    let e = match rng.gen_range(0..4) {
                        0 => E::Or(vec![E::Var(b), E::Or(vec![])]),
                        1 => E::And(vec![E::Var(b), E::And(vec![])]),
                        2 => E::Implies(Box::new(E::And(vec![])), Box::new(E::Var(b))),
                        _ => E::Or(vec![E::Not(Box::new(E::Or(vec![]))), E::Var(b)]),
                    };
                    m.cons.push(Con { name: Some("hollow".into()), kind: CKind::Assert(e) });
                }
            }
            // operands that are constant sub-expressions: a / (p / q), a - (p - q), a / (p * q), a * (p / q)
            if family.is_none() && rng.gen_bool(0.3) {
                let nums: Vec<usize> = (0..m.n()).filter(|i| m.types[*i] != VT::Bool).collect();
                if let Some(&i) = nums.last() {
                    let (p, q) = ([80.0, 3.0, 0.5, 7.0][rng.gen_range(0..4)], [100.0, 4.0, 0.25, 2.0][rng.gen_range(0..4)]);
                    let inner = match rng.gen_range(0..4) {
                        0 => E::div(E::Var(i), E::div(E::Num(p), E::Num(q))),
                        1 => E::sub(E::Var(i), E::sub(E::Num(p), E::Num(q))),
                        2 => E::div(E::Var(i), E::mul(E::Num(p), E::Num(q))),
                        _ => E::mul(E::Var(i), E::div(E::Num(p), E::Num(q))),
                    };
                    m.cons.push(Con { name: Some("nested".into()), kind: CKind::Cmp(inner.clone(), Cmp::Le, E::Num(40.0)) });
                    if m.sense != Sense::Satisfy && rng.gen_bool(0.5) {
                        m.obj = E::add(m.obj.clone(), inner);
                    }
                }
            }
            if only.is_some_and(|o| o != case) {
                continue;
            }
            out.case = case;
            if let Some(f) = family {
                out.tag(&format!("family:{f}"));
            }
            // the family goes through the text door (the builder may hand the rows over in another shape)
            let first = if family.is_some() {
                match std::panic::catch_unwind(std::panic::AssertUnwindSafe(|| m.to_model().to_string())).map(|t| compile_text(&t)) {
                    Ok(Recompiled::Ok(lm)) => Compiled::Ok(lm),
                    _ => compile_m(&m),
                }
            } else {
                compile_m(&m)
            };
            let Compiled::Ok(lm) = first else {
                if family.is_some() {
                    out.tag("family:not-compiled");
                }
                out.tag("not-compiled");
                continue;
            };
            if wellformed_finite(&lm).is_err() {
                out.inconclusive("linear model with non-finite numbers (C08's concern)");
                continue;
            }
            let detail = |which: &str, text: &str, extra: Value| json!({"route": which, "source": m.show(), "rendered_text": text, "original_linear_model": lm.to_string(), "detail": extra});
            // route A: rendering of the compiled (source) model
            let model_text = match std::panic::catch_unwind(std::panic::AssertUnwindSafe(|| m.to_model().to_string())) {
                Ok(t) => t,
                Err(_) => continue,
            };
            // route B: rendering of the linear model
            let lin_text = lm.to_string();
            let mut ok_routes = 0;
            for (route, text) in [("Model::to_string", &model_text), ("LinearModel::to_string", &lin_text)] {
                out.eval();
                match compile_text(text) {
                    Recompiled::Ok(lm2) => match same_linear_model(&lm, &lm2) {
                        Ok(tighter) => {
                            if !tighter.is_empty() {
                                if let Some(why) = tightening_is_sound(&lm, &lm2, &tighter) {
                                    out.violation(&format!("{route}:recompiled-domain-cuts-feasible-points"), &why, detail(route, text, json!({"recompiled": lm2.to_string()})));
                                    continue;
                                }
                                {
                                    let (na, nb) = (normalize(&lm), normalize(&lm2));
                                    for v in &tighter {
                                        if let (Some(x), Some(y)) = (na.intervals.get(v), nb.intervals.get(v)) {
                                            if (x.1.is_infinite() && y.1.is_finite()) || (x.2.is_infinite() && y.2.is_finite()) {
                                                out.tag(&format!("{route}:infinite-end-became-finite"));
                                                break;
                                            }
                                        }
                                    }
                                }
                                if route == "LinearModel::to_string" && family.is_some() {
                                    // on every model of this family the first compilation is already at the fixed point of the
                                    // bound propagation (plain integers, no rounding, no contraction): a range that the
                                    // second compilation tightens was left unfinished by the first
                                    out.violation(
                                        &format!("recompiled-domain-tighter({})", family.unwrap()),
                                        &format!("the re-compiled linear model has tighter ranges for {:?}", tighter),
                                        detail(route, text, json!({"recompiled": lm2.to_string()})),
                                    );
                                    continue;
                                }
                                out.tag(&format!("{route}:round-trip-ok(domains-tightened-further)"));
                            } else {
                                out.tag(&format!("{route}:round-trip-ok"));
                            }
                            ok_routes += 1;
                            if route == "LinearModel::to_string" {
                                // render -> compile -> render must give the same text
                                let t2 = lm2.to_string();
                                if *text == t2 {
                                    out.tag("render-idempotent");
                                } else {
                                    // the two models are equal up to the harmless re-normalisations
                                    // (checked above), only the text differs
                                    // lm2 is a compiled linear model as well: its rendering must be accepted too
                                    // (whether the texts ever settle is not asked: a contracting bound
                                    // propagation tightens a little more on every round)
                                    if !matches!(compile_text(&t2), Recompiled::Ok(_)) {
                                        out.violation(
                                            "second-rendering-rejected",
                                            "the rendering of the re-compiled linear model does not compile",
                                            detail(route, text, json!({"second": t2})),
                                        );
                                        continue;
                                    }
                                    out.violation(
                                        "linear-rendering-not-a-fixed-point(models-equal-after-normalisation)",
                                        "rendering the re-compiled linear model gives a different text (tautological rows dropped, Boolean rows re-normalised, domains tightened again or unused variables removed); the models are equivalent",
                                        detail(route, text, json!({"second": t2})),
                                    );
                                }
                            }
                        }
                        Err((sig, what)) => {
                            // the source-level rendering may legitimately re-associate sums, which can change
                            // what bound propagation finds and hence the lowering; judge that route by meaning
                            if route == "Model::to_string" {
                                let mut prng = unit_rng(ctx, "C12p", out.unit * 1000 + case);
                                match semantic_same(&m, &lm, &lm2, &mut prng) {
                                    Ok(true) => {
                                        out.tag("Model::to_string:round-trip-ok(same meaning, different lowering)");
                                        ok_routes += 1;
                                    }
                                    Ok(false) => out.inconclusive("semantic comparison undecided"),
                                    Err(why) => out.violation(&format!("{route}:meaning-differs({sig})"), &format!("{what}; {why}"), detail(route, text, json!({"recompiled": lm2.to_string()}))),
                                }
                            } else {
                                out.violation(&format!("{route}:{sig}"), &what, detail(route, text, json!({"recompiled": lm2.to_string()})));
                            }
                        }
                    },
                    Recompiled::TypeCheck(e) => out.violation(&format!("{route}:rendering-fails-type-check"), e.lines().next().unwrap_or(""), detail(route, text, json!(e))),
                    Recompiled::ParseOrTransform(e) => {
                        let class = if e.contains("-->") { "parse" } else { "transform" };
                        out.violation(&format!("{route}:rendering-rejected({class})"), e.lines().find(|l| l.contains('[')).unwrap_or(e.lines().next().unwrap_or("")), detail(route, text, json!(e)))
                    }
                    Recompiled::Linearize(e) => out.violation(&format!("{route}:rendering-fails-linearization"), &e, detail(route, text, json!(e))),
                    Recompiled::Panicked(_) => out.inconclusive("panic (C18's concern)"),
                }
            }
            if ok_routes == 2 {
                out.nontrivial(hash_str(&lin_text));
                if out.report.samples.is_empty() && out.unit < 16 {
                    out.sample(json!({"model_text": model_text, "linear_text": lin_text}));
                }
            }
        }
    }
    fn rule(&self) -> String {
        "G-model models (all strata; 40% with an extra coefficient from {1e-9, -1e-9, 3e-7, -1e-6, 1e9, -2.5e8, 123456.789, -0.1} in objective, a row and the offset) compiled by the real Linearizer; both Model::to_string() and LinearModel::to_string() are fed to RoocParser::type_check, parse_and_transform and Linearizer::linearize again; the result must have the same objective, offset and the same multiset of rows (names, relation, rhs, coefficients to 1e-12) and the same domains (a domain that the second propagation pass tightens further is accepted only if the certified extreme values of the original model stay inside it); the text of render(compile(render(L))) must equal render(L). non-trivial = both routes round-trip 4% of the models come from the bound-after-use family (abs{x} <= y then y <= k and four relatives, through the text door): their first compilation is at the fixed point of the bound propagation, so any tighter re-compiled range is a violation; ranges are compared with infinities equal only to themselves; named rows that are already false must keep their names; the rendering of the re-compiled model must compile as well.".into()
    }
    fn thresholds(&self, tier: Tier) -> Thresholds {
        let s = tier.pick(8, 120);
        Thresholds {
            min_tags: vec![("render-idempotent", 1000 * s), ("LinearModel::to_string:round-trip-ok", 1000 * s), ("Model::to_string:round-trip-ok", 1000 * s)],
            min_nontrivial: 1500 * s,
        }
    }
    fn assumptions(&self) -> Vec<String> {
        vec!["'same variable domains' is read as: equal, or tightened further by re-running bound propagation on the rendered rows without cutting any feasible point".into()]
    }
}

fn wellformed_finite(lm: &LinearModel) -> Result<(), ()> {
    XLin::from_rooc(lm).map(|_| ()).map_err(|_| ())
}

#[allow(dead_code)]
fn unused(_: &LmSpec) {}

pub fn debug_case(seed: u64, unit: usize, case: usize) {
    let ctx = Ctx { tier: Tier::Quick, seed };
    let mut rng = unit_rng(&ctx, "C12", unit);
    for c in 0..25 {
        let stratum = STRATA[rng.gen_range(0..STRATA.len())];
        let mut m = gen_model(&mut rng, stratum);
        if rng.gen_bool(0.4) {
            let k = [1e-9, -1e-9, 3e-7, -0.000001, 1e9, -2.5e8, 123456.789, -0.1, 3e19, -2e20][rng.gen_range(0..10)];
            let nums: Vec<usize> = (0..m.n()).filter(|i| m.types[*i] != VT::Bool).collect();
            if let Some(&i) = nums.first() {
                m.obj = E::add(m.obj.clone(), E::mul(E::Num(k), E::Var(i)));
                m.cons.push(Con { name: None, kind: CKind::Cmp(E::mul(E::Num(k), E::Var(i)), Cmp::Le, E::Num(k.abs() * 3.0)) });
                if rng.gen_bool(0.5) {
                    m.obj = E::add(m.obj.clone(), E::Num(k));
                }
            }
            if m.sense == Sense::Satisfy {
                m.sense = Sense::Min;
            }
        }
        if c != case {
            continue;
        }
        let model = m.to_model();
        let text = model.to_string();
        println!("--- builder model\n{:#?}", model.constraints());
        let parser = RoocParser::new(text.clone());
        let re = parser.parse_and_transform(vec![], &IndexMap::new()).unwrap();
        println!("--- re-parsed model\n{:#?}", re.constraints());
        println!("--- text\n{text}");
        let d1 = rooc::verif_bounds::derived_bounds(&model, None);
        let d2 = rooc::verif_bounds::derived_bounds(&re, None);
        println!("derived 1: {:?}", d1.variables());
        println!("derived 2: {:?}", d2.variables());
    }
}

/// Same projection onto the declared variables and same objective values, on the C01 point sets.
fn semantic_same(m: &M, a: &LinearModel, b: &LinearModel, rng: &mut rand_chacha::ChaCha8Rng) -> Result<bool, String> {
    use crate::props::c01::{eps9, fix_vector};
    let (Ok(xa), Ok(xb)) = (XLin::from_rooc(a), XLin::from_rooc(b)) else { return Ok(false) };
    let pts = crate::points::point_set(m, Some(&xa), rng, 40);
    let eps = eps9();
    let mut decided = 0;
    for p in &pts {
        let fa = fix_vector(m, &xa, p);
        let fb = fix_vector(m, &xb, p);
        let ea = extend(&xa, &fa, &zero(), true, 3000);
        let eb = extend(&xb, &fb, &zero(), true, 3000);
        match (ea, eb) {
            (Ok(Ext::Yes { best: va, .. }), Ok(Ext::Yes { best: vb, .. })) => {
                decided += 1;
                if xa.sense != rooc::OptimizationType::Satisfy && (&va - &vb).abs() > pow10_neg(6) * qmax(&one(), &va.abs()) {
                    return Err(format!("at {} the best objective is {} before and {} after", show_vec(p), show(&va), show(&vb)));
                }
            }
            (Ok(Ext::No(_)), Ok(Ext::No(_))) | (Ok(Ext::Unbounded), Ok(Ext::Unbounded)) => decided += 1,
            (Ok(x), Ok(y)) => {
                // tolerance band before declaring a difference
                let xe = extend(&xa, &fa, &eps, false, 3000);
                let ye = extend(&xb, &fb, &eps, false, 3000);
                let kind = |e: &Ext| matches!(e, Ext::No(_));
                match (xe, ye) {
                    (Ok(xe), Ok(ye)) if kind(&xe) == kind(&y) || kind(&ye) == kind(&x) => {}
                    _ => return Err(format!("assignment {} is accepted by one model and rejected by the other", show_vec(p))),
                }
            }
            _ => {}
        }
    }
    Ok(decided >= 5)
}
