//! C14 - every simplex step preserves equivalence, feasibility and monotonicity.
//! The history (hook H3) of every pivot performed by the real pivot loop is checked prefix by prefix.
use crate::gen_lp::*;
use crate::lp::*;
use crate::rat::*;
use crate::runner::*;
use num_traits::Signed;
use rand::Rng;
use rooc::simplex::tableau::verif::{StepEvent, StepOutcome};
use rooc::{Comparison, LinearModel, OptimizationType, Tableau, VariableType};
use serde_json::{Value, json};

pub struct C14;

const TOL: f64 = 1e-6;

fn scale_of(t: &Tableau) -> f64 {
    let mut s: f64 = 1.0;
    for row in t.a_matrix() {
        for v in row {
            s = s.max(v.abs());
        }
    }
    for v in t.b_vec() {
        s = s.max(v.abs());
    }
    s
}

fn basic_solution(t: &Tableau) -> Vec<f64> {
    let n = t.c_vec().len();
    let mut x = vec![0.0; n];
    for (i, &j) in t.in_basis().iter().enumerate() {
        if j < n {
            x[j] = t.b_vec()[i];
        }
    }
    x
}

/// point obtained from the basic solution by raising non-basic column j to 1
fn edge_point(t: &Tableau, j: usize) -> Vec<f64> {
    let mut x = basic_solution(t);
    x[j] = 1.0;
    for (i, &bj) in t.in_basis().iter().enumerate() {
        x[bj] = t.b_vec()[i] - t.a_matrix()[i][j];
    }
    x
}

fn residual(t0: &Tableau, x: &[f64]) -> f64 {
    let mut worst: f64 = 0.0;
    for (i, row) in t0.a_matrix().iter().enumerate() {
        let s: f64 = row.iter().zip(x).map(|(a, v)| a * v).sum();
        worst = worst.max((s - t0.b_vec()[i]).abs());
    }
    worst
}

/// objective encoded by a tableau at a point of the solution space
fn encoded_objective(t: &Tableau, x: &[f64]) -> f64 {
    -t.current_value() + t.c_vec().iter().zip(x).map(|(c, v)| c * v).sum::<f64>()
}

/// Compares the tableau after a pivot on (t, h) with the Gauss-Jordan image of the tableau before it.
/// Tolerance: 1e-9 of the magnitudes that take part in the entry, far above rounding and far below any
/// coefficient a model can carry.
fn pivot_arithmetic(before: &Tableau, after: &Tableau, t: usize, h: usize) -> Option<String> {
    let a = before.a_matrix();
    let p = a[t][h];
    let close = |got: f64, x: f64, y: f64| -> bool {
        // expected = x - y
        (got - (x - y)).abs() <= 1e-9 * (x.abs() + y.abs()) + 1e-300
    };
    for i in 0..a.len() {
        for j in 0..a[i].len() {
            let (x, y) = if i == t { (a[t][j] / p, 0.0) } else { (a[i][j], a[i][h] / p * a[t][j]) };
            if !close(after.a_matrix()[i][j], x, y) {
                return Some(format!("entry [{i}][{j}] is {} where the elimination gives {}", after.a_matrix()[i][j], x - y));
            }
        }
        let (x, y) = if i == t { (before.b_vec()[t] / p, 0.0) } else { (before.b_vec()[i], a[i][h] / p * before.b_vec()[t]) };
        if !close(after.b_vec()[i], x, y) {
            return Some(format!("right-hand side of row {i} is {} where the elimination gives {}", after.b_vec()[i], x - y));
        }
    }
    for j in 0..before.c_vec().len() {
        let (x, y) = (before.c_vec()[j], before.c_vec()[h] / p * a[t][j]);
        if !close(after.c_vec()[j], x, y) {
            return Some(format!("reduced cost of column {j} is {} where the elimination gives {}", after.c_vec()[j], x - y));
        }
    }
    if after.in_basis().get(t) != Some(&h) || (0..a.len()).any(|i| i != t && after.in_basis()[i] != before.in_basis()[i]) {
        return Some(format!("basis {:?} became {:?}", before.in_basis(), after.in_basis()));
    }
    None
}

#[derive(Debug)]
pub struct HistoryFinding {
    pub sig: String,
    pub what: String,
    pub step: usize,
    /// size of a numeric deviation relative to the tableau scale (None = structural)
    pub magnitude: Option<f64>,
}

/// Checks one run (a maximal sequence of events on the same tableau) of the pivot loop.
pub fn check_run(events: &[StepEvent], limit: usize, converted_directly: bool) -> (Vec<HistoryFinding>, Vec<&'static str>) {
    let mut findings = vec![];
    let mut tags = vec![];
    let Some(first) = events.first() else { return (findings, tags) };
    let t0 = &first.before;
    let m = t0.a_matrix().len();
    let n = t0.c_vec().len();
    let cell = std::cell::RefCell::new(Vec::<HistoryFinding>::new());
    let mag = std::cell::Cell::new(None::<f64>);
    let mut fail = |sig: &str, what: String, step: usize| {
        cell.borrow_mut().push(HistoryFinding { sig: sig.to_string(), what, step, magnitude: mag.take() });
    };
    let check_tableau = |t: &Tableau, step: usize, fail: &mut dyn FnMut(&str, String, usize)| {
        let sc = scale_of(t).max(scale_of(t0));
        let tol = TOL * sc * 10.0;
        // basis: distinct, in range, unit columns, zero reduced cost
        let basis = t.in_basis();
        let mut seen = std::collections::HashSet::new();
        for (i, &bj) in basis.iter().enumerate() {
            if bj >= n || !seen.insert(bj) {
                fail("basis-malformed", format!("basis {:?} after step {step}", basis), step);
                return;
            }
            for r in 0..m {
                let want = if r == i { 1.0 } else { 0.0 };
                if (t.a_matrix()[r][bj] - want).abs() > tol {
                    mag.set(Some((t.a_matrix()[r][bj] - want).abs() / sc));
                    fail("basic-column-not-unit", format!("column {bj} row {r} is {} after step {step}", t.a_matrix()[r][bj]), step);
                    return;
                }
            }
            if t.c_vec()[bj].abs() > tol {
                mag.set(Some(t.c_vec()[bj].abs() / sc));
                fail("basic-reduced-cost-nonzero", format!("reduced cost of basic column {bj} is {} after step {step}", t.c_vec()[bj]), step);
                return;
            }
        }
        // b >= 0 (the code works with a 1e-5 tolerance; allow ten times that, scaled)
        for (i, b) in t.b_vec().iter().enumerate() {
            if *b < -1e-4 * sc {
                mag.set(Some(-*b / sc));
                fail("basic-solution-negative", format!("b[{i}] = {b} after step {step}"), step);
                return;
            }
        }
        // same solution space and same objective as the initial tableau
        let x = basic_solution(t);
        let r = residual(t0, &x);
        if r > tol * 10.0 {
            mag.set(Some(r / sc));
            fail("basic-solution-leaves-initial-system", format!("residual {r} against the initial equalities after step {step}"), step);
            return;
        }
        let f0 = encoded_objective(t0, &x);
        let f1 = encoded_objective(t, &x);
        let ftol = TOL * 100.0 * (1.0 + f0.abs().max(f1.abs())) * sc;
        if (f0 - f1).abs() > ftol {
            mag.set(Some((f0 - f1).abs() / ((1.0 + f0.abs().max(f1.abs())) * sc)));
            fail("objective-changed", format!("objective at the basic solution: initial encoding {f0}, current encoding {f1} after step {step}"), step);
            return;
        }
        for j in 0..n {
            if basis.contains(&j) {
                continue;
            }
            let e = edge_point(t, j);
            let mag_e = e.iter().fold(1.0f64, |a, v| a.max(v.abs()));
            let r = residual(t0, &e);
            if r > tol * 10.0 * mag_e {
                mag.set(Some(r / (sc * mag_e)));
                fail("system-not-equivalent", format!("edge point of column {j} has residual {r} against the initial equalities after step {step}"), step);
                return;
            }
            let f0 = encoded_objective(t0, &e);
            let f1 = encoded_objective(t, &e);
            if (f0 - f1).abs() > TOL * 100.0 * (1.0 + f0.abs().max(f1.abs())) * sc * mag_e {
                mag.set(Some((f0 - f1).abs() / ((1.0 + f0.abs().max(f1.abs())) * sc * mag_e)));
                fail("objective-changed", format!("objective at the edge point of column {j}: initial encoding {f0}, current encoding {f1} after step {step}"), step);
                return;
            }
        }
    };
    // the start is canonical: the direct conversion divides a row by its own entry and uses columns that hold nothing
    // else, so the basic columns of its tableau are unit columns to the last bit; a start that comes out of a first
    // phase carries the rounding residue of that phase's pivots
    let a_scale = t0.a_matrix().iter().flatten().fold(1.0f64, |s, v| s.max(v.abs()));
    let start_tol = if converted_directly { 1e-12 } else { 1e-9 * a_scale };
    tags.push(if converted_directly { "start:directly-converted(exact unit columns required)" } else { "start:after-first-phase" });
    'start: for (i, &bj) in t0.in_basis().iter().enumerate() {
        if bj >= n {
            break;
        }
        for r in 0..m {
            let want = if r == i { 1.0 } else { 0.0 };
            if (t0.a_matrix()[r][bj] - want).abs() > start_tol {
                fail("start-tableau-not-canonical", format!("basic column {bj} holds {} in row {r} before the first step", t0.a_matrix()[r][bj]), 0);
                break 'start;
            }
        }
    }
    check_tableau(t0, 0, &mut fail);
    let mut pivots = 0usize;
    let mut bland_bases: Vec<Vec<usize>> = vec![];
    let mut last_obj = -t0.current_value();
    for (k, ev) in events.iter().enumerate() {
        let step = k + 1;
        match &ev.outcome {
            StepOutcome::Pivot { entering, leaving, ratio } => {
                pivots += 1;
                let before = &ev.before;
                let sc = scale_of(before);
                // the entering column must improve, the pivot entry must be positive, the ratio minimal
                if before.in_basis().contains(entering) {
                    fail("entering-already-basic", format!("column {entering} entered at step {step} while basic"), step);
                }
                if before.c_vec()[*entering] >= 0.0 {
                    fail("entering-does-not-improve", format!("entering column {entering} has reduced cost {} at step {step}", before.c_vec()[*entering]), step);
                }
                let piv = before.a_matrix()[*leaving][*entering];
                if piv <= 0.0 {
                    fail("pivot-entry-not-positive", format!("pivot entry {piv} at step {step}"), step);
                } else {
                    let r = before.b_vec()[*leaving] / piv;
                    if (r - ratio).abs() > TOL * (1.0 + r.abs()) {
                        fail("ratio-misreported", format!("reported ratio {ratio}, actual {r} at step {step}"), step);
                    }
                    for i in 0..m {
                        let a = before.a_matrix()[i][*entering];
                        if a > 1e-4 * sc {
                            let ri = before.b_vec()[i] / a;
                            if ri < r - 1e-4 * (1.0 + r.abs()) * sc {
                                mag.set(Some((r - ri) / ((1.0 + r.abs()) * sc)));
                                fail("ratio-test-not-minimal", format!("row {i} has ratio {ri} below the chosen {r} at step {step}"), step);
                                break;
                            }
                        }
                    }
                }
                if ev.use_bland {
                    tags.push("bland-rule-used");
                    // Bland: the entering column is the first improving one
                    let first_improving = (0..n).find(|j| !before.in_basis().contains(j) && before.c_vec()[*j] < -1e-5);
                    if let Some(f) = first_improving {
                        if f != *entering {
                            fail("bland-entering-not-smallest-index", format!("entered {entering}, first improving column is {f} at step {step}"), step);
                        }
                    }
                    let mut b = ev.after.in_basis().clone();
                    b.sort();
                    if bland_bases.contains(&b) {
                        fail("basis-repeats-under-bland", format!("basis {:?} repeats at step {step}", b), step);
                    }
                    bland_bases.push(b);
                }
                if before.b_vec()[*leaving].abs() <= 1e-9 {
                    tags.push("degenerate-pivot");
                }
                // the pivot itself is plain arithmetic: every entry of the tableau after the step is the Gauss-Jordan
                // image of the tableau before it (whatever the merits of the choice of pivot), entry by entry
                if piv != 0.0 {
                    tags.push("pivot-compared-with-its-gauss-jordan-image");
                    if let Some(what) = pivot_arithmetic(before, &ev.after, *leaving, *entering) {
                        fail("pivot-arithmetic-differs", format!("{what} at step {step} (column {entering} enters on row {leaving})"), step);
                    }
                }
                check_tableau(&ev.after, step, &mut fail);
                let obj = -ev.after.current_value();
                if obj > last_obj + TOL * 10.0 * (1.0 + last_obj.abs()) * sc {
                    mag.set(Some((obj - last_obj) / ((1.0 + last_obj.abs()) * sc)));
                    fail("objective-got-worse", format!("objective went from {last_obj} to {obj} at step {step}"), step);
                }
                last_obj = obj;
            }
            StepOutcome::Finished => {
                tags.push("finished");
            }
            StepOutcome::Unbounded => {
                tags.push("unbounded-reported");
            }
            StepOutcome::Other => {
                fail("step-error-other", format!("step {step} ended with SimplexError::Other"), step);
            }
        }
        if !cell.borrow().is_empty() {
            break;
        }
    }
    if pivots > limit {
        fail("iteration-limit-exceeded", format!("{pivots} pivots with limit {limit}"), pivots);
    }
    findings = cell.into_inner();
    (findings, tags)
}

/// The exact LP a run is supposed to solve, built from the exact standard form (not from the
/// float tableau, whose entries carry rounding residue of earlier pivots).
fn run_lp(xs: &crate::props::c13::XStd, phase1: bool) -> Lp {
    let mut lp = xs.as_lp(None);
    if phase1 {
        let n = lp.vars.len();
        let m = lp.rows.len();
        for c in lp.c.iter_mut() {
            *c = zero();
        }
        for i in 0..m {
            lp.vars.push(LpVar { lo: Some(zero()), hi: None, int: false });
            lp.c.push(one());
            for (r, row) in lp.rows.iter_mut().enumerate() {
                row.a.push(if r == i { one() } else { zero() });
            }
        }
        let _ = n;
    }
    lp
}

/// Terminal check of a run against the certified oracle on the exact problem of that run.
pub fn check_terminal(events: &[StepEvent], xs: &crate::props::c13::XStd) -> Result<&'static str, HistoryFinding> {
    let first = &events[0];
    let last = events.last().unwrap();
    let phase1 = !first.avoided.is_empty();
    let lp = run_lp(xs, phase1);
    let truth = match solve_lp(&lp) {
        Ok(a) => a,
        Err(_) => return Ok("oracle-undecided"),
    };
    let step = events.len();
    // nearly parallel rows (1/3 is not exactly a third) can make the exact problem solvable
    // only at astronomically large values; a float method cannot be judged against that
    let huge = |x: &Vec<Q>| x.iter().any(|v| v.abs() > qi(1_000_000));
    match &truth {
        LpAnswer::Optimal { x, .. } | LpAnswer::Unbounded { x, .. } if huge(x) => {
            return Ok("ill-conditioned(exact solution beyond 1e6)");
        }
        _ => {}
    }
    if let LpAnswer::Unbounded { ray, .. } = &truth {
        // an improving ray whose slope is at rounding level (0.3333333333333333 vs 1/3)
        let mut slope = zero();
        let mut cn = zero();
        let mut dn = zero();
        for (c, d) in lp.c.iter().zip(ray) {
            slope += c * d;
            cn += c.abs();
            dn += d.abs();
        }
        if slope.abs() <= pow10_neg(9) * &cn * &dn {
            return Ok("ill-conditioned(improving ray with rounding-level slope)");
        }
    }
    // the float method works with a 1e-5 tolerance: its result may legitimately lie anywhere between the
    // optimum of the 1e-6-relaxed problem and the exact optimum (a 1e-17 coefficient residue can separate them)
    let relaxed = solve_lp(&relax(&lp, &pow10_neg(6))).ok();
    let sc = scale_of(&first.before);
    match (&last.outcome, &truth) {
        (StepOutcome::Finished, _) => {
            let got = -last.after.current_value();
            let hi = match &truth {
                LpAnswer::Optimal { value, .. } => Some(to_f64(value)),
                LpAnswer::Infeasible => None, // nothing bounds it from above
                LpAnswer::Unbounded { .. } => Some(f64::NEG_INFINITY),
            };
            let lo = match &relaxed {
                Some(LpAnswer::Optimal { value, .. }) => Some(to_f64(value)),
                Some(LpAnswer::Unbounded { .. }) => Some(f64::NEG_INFINITY),
                Some(LpAnswer::Infeasible) => None,
                None => return Ok("oracle-undecided"),
            };
            if matches!(truth, LpAnswer::Infeasible) && !phase1 {
                // phase 2 only starts after phase 1 accepted a residual below the code's 1e-5 tolerance
                return Ok("phase2-on-tolerance-feasible-problem");
            }
            match (lo, hi) {
                (Some(lo), Some(hi)) => {
                    let tol = 1e-4 * (1.0 + got.abs()) * sc;
                    if (got - hi).abs() <= tol {
                        Ok("terminal-optimal-confirmed")
                    } else if got >= lo - tol && got <= hi + tol {
                        Ok("terminal-optimal-within-tolerance-band")
                    } else if hi == f64::NEG_INFINITY {
                        Err(HistoryFinding {
                            sig: "finished-on-unbounded".into(),
                            what: "the method reported an optimum but the problem is unbounded".into(),
                            step,
                            magnitude: None,
                        })
                    } else {
                        Err(HistoryFinding {
                            sig: "finished-not-optimal".into(),
                            what: format!("the method stopped at objective {got} but the certified optimum of the problem it was solving is {hi} (1e-6-relaxed: {lo})"),
                            step,
                            magnitude: Some(((got - hi).abs().min((got - lo).abs())) / ((1.0 + got.abs()) * sc)),
                        })
                    }
                }
                _ => Err(HistoryFinding {
                    sig: "finished-on-infeasible".into(),
                    what: "the method reported an optimum but the problem is infeasible even after a 1e-6 relaxation".into(),
                    step,
                    magnitude: None,
                }),
            }
        }
        (StepOutcome::Unbounded, LpAnswer::Unbounded { .. }) => Ok("terminal-unbounded-confirmed"),
        (StepOutcome::Unbounded, other) => {
            if matches!(relaxed, Some(LpAnswer::Unbounded { .. })) {
                Ok("terminal-unbounded-within-tolerance-band")
            } else if matches!(&relaxed, Some(LpAnswer::Optimal { x, .. }) if huge(x)) {
                // two rows that are parallel up to the rounding of 0.3 (the second is -0.3 times the first): in exact
                // arithmetic they meet in one point, within the 1e-6 band the improving direction only closes beyond 1e6
                Ok("ill-conditioned(relaxed optimum beyond 1e6)")
            } else if matches!(other, LpAnswer::Infeasible) && !phase1 {
                Ok("phase2-on-tolerance-feasible-problem")
            } else {
                Err(HistoryFinding {
                    sig: format!("unbounded-on-{}", other.kind()),
                    what: format!("the method reported unbounded but the problem is {}", other.kind()),
                    step,
                    magnitude: None,
                })
            }
        }
        _ => Ok("no-terminal-event"),
    }
}

/// Splits the recorded log into runs: a new run starts when `before` is not the previous `after`.
pub fn split_runs(events: Vec<StepEvent>) -> Vec<Vec<StepEvent>> {
    let mut runs: Vec<Vec<StepEvent>> = vec![];
    for ev in events {
        let new_run = match runs.last().and_then(|r| r.last()) {
            None => true,
            Some(prev) => {
                !matches!(prev.outcome, StepOutcome::Pivot { .. })
                    || prev.after.b_vec() != ev.before.b_vec()
                    || prev.after.in_basis() != ev.before.in_basis()
                    || prev.after.c_vec() != ev.before.c_vec()
            }
        };
        if new_run {
            runs.push(vec![]);
        }
        runs.last_mut().unwrap().push(ev);
    }
    runs
}

pub fn classic_models() -> Vec<(LinearModel, &'static str)> {
    let mut v = vec![];
    let nn = VariableType::non_negative_real;
    // Beale's cycling example
    let mut m = LinearModel::new();
    for n in ["x1", "x2", "x3", "x4"] {
        m.add_variable(n, nn());
    }
    m.add_constraint(vec![0.25, -60.0, -0.04, 9.0], Comparison::LessOrEqual, 0.0);
    m.add_constraint(vec![0.5, -90.0, -0.02, 3.0], Comparison::LessOrEqual, 0.0);
    m.add_constraint(vec![0.0, 0.0, 1.0, 0.0], Comparison::LessOrEqual, 1.0);
    m.set_objective(vec![-0.75, 150.0, -0.02, 6.0], OptimizationType::Min);
    v.push((m, "beale"));
    // Kuhn's example
    let mut m = LinearModel::new();
    for n in ["x1", "x2", "x3", "x4"] {
        m.add_variable(n, nn());
    }
    m.add_constraint(vec![-2.0, -9.0, 1.0, 9.0], Comparison::LessOrEqual, 0.0);
    m.add_constraint(vec![1.0 / 3.0, 1.0, -1.0 / 3.0, -2.0], Comparison::LessOrEqual, 0.0);
    m.add_constraint(vec![2.0, 3.0, -1.0, -12.0], Comparison::LessOrEqual, 2.0);
    m.set_objective(vec![-2.0, -3.0, 1.0, 12.0], OptimizationType::Min);
    v.push((m, "kuhn"));
    // Marshall-Suurballe
    let mut m = LinearModel::new();
    for n in ["x1", "x2", "x3", "x4"] {
        m.add_variable(n, nn());
    }
    m.add_constraint(vec![0.5, -5.5, -2.5, 9.0], Comparison::LessOrEqual, 0.0);
    m.add_constraint(vec![0.5, -1.5, -0.5, 1.0], Comparison::LessOrEqual, 0.0);
    m.add_constraint(vec![1.0, 0.0, 0.0, 0.0], Comparison::LessOrEqual, 1.0);
    m.set_objective(vec![-10.0, 57.0, 9.0, 24.0], OptimizationType::Min);
    v.push((m, "marshall-suurballe"));
    // the same cycling examples reached only after a strictly improving pivot: an independent variable y
    // with the most attractive cost enters first (stall detection must still work afterwards)
    let base: Vec<(LinearModel, &'static str)> = v.clone();
    for (m0, name) in &base {
        let (obj, sense, off, rows, mut vars, mut dom) = m0.clone().into_parts();
        let _ = (&mut vars, &mut dom, off, sense);
        let mut m = LinearModel::new();
        for n in ["x1", "x2", "x3", "x4", "y"] {
            m.add_variable(n, nn());
        }
        for r in &rows {
            let mut a = r.coefficients().clone();
            a.push(0.0);
            m.add_constraint(a, *r.constraint_type(), r.rhs());
        }
        m.add_constraint(vec![0.0, 0.0, 0.0, 0.0, 1.0], Comparison::LessOrEqual, 1.0);
        m.add_constraint(vec![0.0, 0.0, 0.0, 0.0, 1.0], Comparison::LessOrEqual, 3.0);
        let mut c = obj.clone();
        c.push(-1000.0);
        m.set_objective(c, OptimizationType::Min);
        v.push((m, match *name {
            "beale" => "beale+improving-first",
            "kuhn" => "kuhn+improving-first",
            _ => "marshall-suurballe+improving-first",
        }));
    }
    // Chvatal's cycling example (max 10x1 - 57x2 - 9x3 - 24x4), plain and behind an improving pivot
    for with_y in [false, true] {
        let mut m = LinearModel::new();
        let names: Vec<&str> = if with_y { vec!["x1", "x2", "x3", "x4", "y"] } else { vec!["x1", "x2", "x3", "x4"] };
        for n in &names {
            m.add_variable(n, nn());
        }
        let pad = |mut a: Vec<f64>| {
            if with_y {
                a.push(0.0);
            }
            a
        };
        m.add_constraint(pad(vec![0.5, -5.5, -2.5, 9.0]), Comparison::LessOrEqual, 0.0);
        m.add_constraint(pad(vec![0.5, -1.5, -0.5, 1.0]), Comparison::LessOrEqual, 0.0);
        m.add_constraint(pad(vec![1.0, 0.0, 0.0, 0.0]), Comparison::LessOrEqual, 1.0);
        let mut c = vec![10.0, -57.0, -9.0, -24.0];
        if with_y {
            m.add_constraint(vec![0.0, 0.0, 0.0, 0.0, 1.0], Comparison::LessOrEqual, 1.0);
            m.add_constraint(vec![0.0, 0.0, 0.0, 0.0, 1.0], Comparison::LessOrEqual, 3.0);
            c.push(100.0);
        }
        m.set_objective(c, OptimizationType::Max);
        v.push((m, if with_y { "chvatal+improving-first" } else { "chvatal" }));
    }
    // assignment polytopes (highly degenerate), 3x3 and 4x4 with structured costs
    for k in [3usize, 4] {
        let mut m = LinearModel::new();
        for i in 0..k {
            for j in 0..k {
                m.add_variable(&format!("a{i}{j}"), nn());
            }
        }
        for i in 0..k {
            let mut row = vec![0.0; k * k];
            let mut col = vec![0.0; k * k];
            for j in 0..k {
                row[i * k + j] = 1.0;
                col[j * k + i] = 1.0;
            }
            m.add_constraint(row, Comparison::Equal, 1.0);
            m.add_constraint(col, Comparison::Equal, 1.0);
        }
        let cost: Vec<f64> = (0..k * k).map(|t| ((t * 7 + 3) % 5) as f64 + 1.0).collect();
        m.set_objective(cost, OptimizationType::Min);
        v.push((m, "assignment"));
    }
    v
}

/// Degeneracy and magnitude strata on top of the generated model (shared with debug_case).
fn perturb(spec: &mut crate::gen_lp::LmSpec, rng: &mut rand_chacha::ChaCha8Rng) {
    if rng.gen_bool(0.3) {
        // push towards degeneracy: many zero right-hand sides
        for r in spec.rows.iter_mut() {
            if rng.gen_bool(0.6) {
                r.b = 0.0;
            }
        }
    }
    if rng.gen_range(0..10) == 0 && !spec.rows.is_empty() && !spec.vars.is_empty() {
        // one coefficient of a few millionths (and sometimes a right-hand side of a few hundred thousand):
        // entries that a tolerant zero test mistakes for nothing
        let i = rng.gen_range(0..spec.rows.len());
        let j = rng.gen_range(0..spec.vars.len());
        spec.rows[i].a[j] = [4e-6, -2e-6, 8e-7, 5e-8][rng.gen_range(0..4)];
        if rng.gen_bool(0.5) {
            let k = rng.gen_range(0..spec.rows.len());
            spec.rows[k].b = (spec.rows[k].b.abs() + 1.0) * 1e5;
        }
    }
}

pub fn run_history(lm: &LinearModel, step_by_step: bool) -> Option<(Vec<StepEvent>, String, crate::props::c13::XStd)> {
    let std = lm.clone().into_standard_form().ok()?;
    let xs = crate::props::c13::read_std(&std).ok()?;
    rooc::simplex::tableau::verif::start();
    let outcome = match std.into_tableau() {
        Ok(mut t) => {
            if step_by_step {
                match t.solve_step_by_step(10_000) {
                    Ok(_) => "solved".to_string(),
                    Err(e) => format!("{e}"),
                }
            } else {
                match t.solve(10_000) {
                    Ok(_) => "solved".to_string(),
                    Err(e) => format!("{e}"),
                }
            }
        }
        Err(e) => format!("no-tableau: {e}"),
    };
    let events = rooc::simplex::tableau::verif::take();
    Some((events, outcome, xs))
}

impl Driver for C14 {
    fn id(&self) -> &'static str {
        "C14"
    }
    fn units(&self, tier: Tier) -> usize {
        tier.pick(6400, 96000)
    }
    fn run_unit(&self, ctx: &Ctx, out: &mut UnitOut, _start: usize, only: Option<usize>) {
        let mut rng = unit_rng(ctx, "C14", out.unit);
        let classics = classic_models();
        for case in 0..25 {
            let mut range = "plain";
            let (lm, origin, spec_json): (LinearModel, &str, Value) = if out.unit % 16 == 0 && case < classics.len() {
                let (m, name) = &classics[case];
                (m.clone(), *name, json!(m.to_string()))
            } else {
                let mut spec = gen_lm(
                    &mut rng,
                    &LpGenOpts { continuous_only: true, allow_satisfy: false, max_vars: 6, max_rows: 6, moderate_coeffs: out.unit % 8 == 1, ..Default::default() },
                );
                perturb(&mut spec, &mut rng);
                range = spec.coefficient_range();
                (spec.to_rooc(), "g-lp", json!(spec))
            };
            let sbs = rng.gen_bool(0.5);
            if only.is_some_and(|o| o != case) {
                continue;
            }
            out.case = case;
            let Some((events, outcome, xs)) = std::panic::catch_unwind(|| run_history(&lm, sbs)).ok().flatten() else {
                out.tag("not-convertible");
                continue;
            };
            out.eval();
            out.tag(&format!("origin:{origin}"));
            out.tag(&format!("coefficients:{range}"));
            if events.is_empty() {
                out.tag("no-steps");
                continue;
            }
            let runs = split_runs(events);
            let mut total_pivots = 0;
            let mut bad = false;
            for (ri, run) in runs.iter().enumerate() {
                let phase = if !run[0].avoided.is_empty() { "phase1" } else { "phase2" };
                out.tag(&format!("run:{phase}"));
                let (findings, tags) = check_run(run, 10_000, ri == 0 && phase == "phase2");
                for t in tags {
                    out.tag(t);
                }
                total_pivots += run.iter().filter(|e| matches!(e.outcome, StepOutcome::Pivot { .. })).count();
                out.tag_n("pivots-checked", run.iter().filter(|e| matches!(e.outcome, StepOutcome::Pivot { .. })).count() as u64);
                let term = if findings.is_empty() { check_terminal(run, &xs) } else { Ok("skipped") };
                let all: Vec<HistoryFinding> = findings.into_iter().chain(term.as_ref().err().map(|f| HistoryFinding { sig: f.sig.clone(), what: f.what.clone(), step: f.step, magnitude: f.magnitude })).collect();
                if let Ok(t) = term {
                    out.tag(t);
                }
                if let Some(f) = all.first() {
                    bad = true;
                    let arithmetic = f.sig == "pivot-arithmetic-differs" || f.sig == "start-tableau-not-canonical";
                    let sig = if arithmetic {
                        // not a matter of tolerances in the choice of the pivot: reported under its own name on every model
                        format!("{phase}:{}", f.sig)
                    } else if range == "wide" {
                        "tableau-simplex-unreliable-on-wide-coefficient-range(spread>=50 or min<=0.05)".to_string()
                    } else if f.magnitude.is_some_and(|m| m <= 2e-3) {
                        "tolerance-level-invariant-drift(<=2e-3 of the tableau scale)".to_string()
                    } else {
                        format!("{phase}:{}", f.sig)
                    };
                    out.violation(
                        &sig,
                        &format!("{} (run {ri}, {phase}, outcome of the solve: {outcome})", f.what),
                        json!({"model": spec_json, "origin": origin, "step": f.step, "run": ri,
                               "tableau_before_step": format!("{:?}", run[f.step.saturating_sub(1).min(run.len()-1)].before)}),
                    );
                    break;
                }
            }
            if !bad && outcome.contains("Limit") {
                // <= 16 columns: 10 000 pivots without a verdict is cycling (or endless stalling)
                bad = true;
                let sig = if range == "wide" { "tableau-simplex-unreliable-on-wide-coefficient-range(spread>=50 or min<=0.05)".to_string() } else { format!("did-not-finish-within-the-iteration-limit({})", if sbs { "solve_step_by_step" } else { "solve" }) };
                out.violation(
                    &sig,
                    &format!("the solve ended with '{outcome}' after {total_pivots} pivots on a problem with {} columns", xs.vars.len()),
                    json!({"model": spec_json, "origin": origin, "pivots": total_pivots}),
                );
            } else if !bad {
                out.tag("finished-within-limit");
            }
            if !bad && total_pivots >= 2 {
                out.nontrivial(hash_str(&spec_json.to_string()));
            }
            if out.report.samples.is_empty() && out.unit < 16 {
                out.sample(json!({"model": lm.to_string(), "runs": runs.len(), "pivots": total_pivots, "outcome": outcome}));
            }
        }
    }
    fn rule(&self) -> String {
        "continuous G-lp models (<=6 variables, <=6 rows, 30% with mostly zero right-hand sides), Beale / Kuhn / Marshall-Suurballe / Chvatal cycling examples - plain and behind a strictly improving first pivot (an independent variable with the most attractive cost), solved both ways - and 3x3, 4x4 assignment polytopes, converted by into_standard_form().into_tableau() and solved by Tableau::solve / solve_step_by_step with the step log (hook H3) recording every step_inner call of phase 1 (solve_avoiding) and phase 2, including the switch to Bland's rule; after EVERY pivot: basic columns unit, reduced costs of basic columns 0, b >= 0, basic solution and all n-m edge points satisfy the INITIAL equalities, the tableau encodes the same affine objective as the initial one, objective never worse, ratio test minimal, no basis repeats under Bland; at the end the certified exact optimum / unboundedness of the run's initial tableau must match, and a solve that ends with 'Iteration Limit Reached' (limit 10 000) is a violation. non-trivial = history with at least two pivots After every pivot the tableau is also compared entry by entry with the Gauss-Jordan image of the tableau before it (1e-9 relative), and a directly converted start tableau must have exact unit columns; one model in ten carries a coefficient of a few millionths.".into()
    }
    fn thresholds(&self, tier: Tier) -> Thresholds {
        let s = tier.pick(20, 300);
        Thresholds {
            min_tags: vec![
                ("pivots-checked", 10000 * s),
                ("run:phase1", 1000 * s),
                ("run:phase2", 1000 * s),
                ("degenerate-pivot", 1000 * s),
                ("terminal-optimal-confirmed", 1000 * s),
                ("terminal-unbounded-confirmed", 100 * s),
                ("origin:beale", 1),
                ("origin:chvatal+improving-first", 1),
                ("origin:beale+improving-first", 1),
                ("origin:assignment", 1),
            ],
            min_nontrivial: 1500 * s,
        }
    }
    fn assumptions(&self) -> Vec<String> {
        vec![
            "'all pivot sequences' = those the code produces on these inputs".into(),
            "floating-point tolerances: 1e-6 relative (scaled by the largest tableau entry) for equalities, 1e-4 scaled for b >= 0 and the ratio test because the code itself compares with 1e-5".into(),
        ]
    }
}

pub fn debug_case(seed: u64, unit: usize, case: usize, thorough: bool) {
    let ctx = Ctx { tier: if thorough { Tier::Thorough } else { Tier::Quick }, seed };
    let mut rng = unit_rng(&ctx, "C14", unit);
    for c in 0..25 {
        let mut spec = gen_lm(
            &mut rng,
            &LpGenOpts { continuous_only: true, allow_satisfy: false, max_vars: 6, max_rows: 6, moderate_coeffs: unit % 8 == 1, ..Default::default() },
        );
        perturb(&mut spec, &mut rng);
        let sbs = rng.gen_bool(0.5);
        if c != case {
            continue;
        }
        let lm = spec.to_rooc();
        println!("{lm}");
        let (events, outcome, xs) = run_history(&lm, sbs).unwrap();
        println!("outcome {outcome}; {} events", events.len());
        println!("standard form vars {:?}", xs.vars);
        for (a, b) in &xs.rows {
            println!("  {} = {}", show_vec(a), show(b));
        }
        for (ri, run) in split_runs(events).iter().enumerate() {
            let phase1 = !run[0].avoided.is_empty();
            let lp = run_lp(&xs, phase1);
            println!("run {ri} phase1={phase1} oracle: {:?}", solve_lp(&lp).map(|a| match a { LpAnswer::Optimal{value, x} => format!("optimal {} at {}", show(&value), show_vec(&x)), o => o.kind().to_string() }));
            for (k, ev) in run.iter().enumerate() {
                println!("  step {k} bland={} outcome {:?} obj {} b {:?} basis {:?}", ev.use_bland, ev.outcome, -ev.after.current_value(), ev.after.b_vec(), ev.after.in_basis());
            }
        }
    }
}
