//! C07 (derived ranges are sound) and C08 (compiled linear models are well-formed).
use crate::ast::*;
use crate::compile::*;
use crate::gen_model::*;
use crate::lin::*;
use crate::lp::*;
use crate::points::*;
use crate::props::c01::{point_json, source_as_lp};
use crate::rat::*;
use crate::runner::*;
use num_traits::{Signed, Zero};
use rand::Rng;
use rand::seq::SliceRandom;
use rand_chacha::ChaCha8Rng;
use rooc::verif_bounds::derived_bounds;
use serde_json::{Value, json};

pub struct C07;
pub struct C08;

fn inside(v: &Q, lo: f64, hi: f64, tol: &Q) -> bool {
    if lo.is_nan() || hi.is_nan() {
        return false;
    }
    if let Some(l) = q(lo) {
        if v + tol * qmax(&one(), &l.abs()) < l {
            return false;
        }
    }
    if let Some(h) = q(hi) {
        if *v > &h + tol * qmax(&one(), &h.abs()) {
            return false;
        }
    }
    // a bound that overflowed to the "wrong" infinity stands for "beyond the largest float":
    // it contains exactly the values a float cannot represent (2 * 8.99e307 is such a value)
    let fmax = q(f64::MAX).unwrap();
    if lo == f64::INFINITY && *v <= fmax {
        return false;
    }
    if hi == f64::NEG_INFINITY && *v >= -fmax {
        return false;
    }
    true
}

fn sub_expressions(m: &M) -> Vec<&E> {
    let mut v = vec![];
    for e in m.all_exprs() {
        e.visit(&mut |x| v.push(x));
    }
    v
}

/// Points of the box spanned by derived variable ranges: corners, midpoints, integers, far points.
fn box_points(m: &M, ranges: &[(f64, f64)], rng: &mut ChaCha8Rng, count: usize) -> Vec<Vec<Q>> {
    let mut axes: Vec<Vec<Q>> = vec![];
    for (i, (lo, hi)) in ranges.iter().enumerate() {
        let mut ax = vec![];
        let l = q(*lo);
        let h = q(*hi);
        match (&l, &h) {
            (Some(l), Some(h)) => {
                if l > h {
                    ax.push(l.clone());
                } else {
                    ax.push(l.clone());
                    ax.push(h.clone());
                    ax.push((l + h) / qi(2));
                    ax.push(l + (h - l) / qi(3));
                }
            }
            (Some(l), None) => {
                ax.push(l.clone());
                ax.push(l + qi(1));
                ax.push(l + qi(1_000_000));
            }
            (None, Some(h)) => {
                ax.push(h.clone());
                ax.push(h - qi(1));
                ax.push(h - qi(1_000_000));
            }
            (None, None) => {
                ax.extend([qi(0), qi(-1_000_000), qi(1_000_000), qf(7, 2)]);
            }
        }
        if m.types[i].is_discrete() {
            // integer points of the range
            let extra: Vec<Q> = ax.iter().flat_map(|v| [v.floor(), v.ceil()]).collect();
            ax = extra
                .into_iter()
                .filter(|v| l.as_ref().map_or(true, |l| v >= l) && h.as_ref().map_or(true, |h| v <= h))
                .collect();
            if ax.is_empty() {
                ax.push(l.clone().or(h.clone()).unwrap_or_else(zero));
            }
        }
        ax.sort();
        ax.dedup();
        axes.push(ax);
    }
    (0..count)
        .map(|_| axes.iter().map(|ax| ax.choose(rng).unwrap().clone()).collect())
        .collect()
}

/// (relation, coefficient c, integer k, right-hand side r): `c * x rel r` holds at x = k in exact
/// arithmetic on the float constants, but the bound r / c (or r * (1 / c)) computed in floating point
/// falls an ulp on the wrong side of k - the case "integer variables after rounding".
fn inexact_integer_rows() -> &'static Vec<(Cmp, f64, i32, f64)> {
    static TABLE: std::sync::OnceLock<Vec<(Cmp, f64, i32, f64)>> = std::sync::OnceLock::new();
    TABLE.get_or_init(|| {
        let mut cs: Vec<f64> = (1..40).map(|i| i as f64 / 10.0).collect();
        cs.extend((1..100).step_by(3).map(|i| i as f64 / 100.0));
        cs.extend([1.0 / 3.0, 2.0 / 3.0, 0.07, 0.03, 1.1, 1.7, 2.3]);
        let mut v = vec![];
        for c in cs {
            let qc = q(c).unwrap();
            for k in 4..60 {
                let r = c * k as f64;
                let qr = q(r).unwrap();
                let exact = &qc * qi(k as i64);
                for bound in [r / c, r * (1.0 / c)] {
                    if bound < k as f64 && exact <= qr {
                        v.push((Cmp::Le, c, k, r));
                    }
                    if bound > k as f64 && exact >= qr {
                        v.push((Cmp::Ge, c, k, r));
                    }
                }
            }
        }
        v.dedup_by(|a, b| a.0 == b.0 && a.1 == b.1 && a.2 == b.2);
        v
    })
}

/// Rows whose derived bound lands an ulp beside the value it should have (shared with C01, C02, C03):
/// an integer variable bounded through an inexact quotient, or a variable pinned to one of its declared
/// bounds through a coefficient such as 1.9. Returns the variable and the value it can (and must be able to) take.
pub fn add_inexact_row(m: &mut M, rng: &mut ChaCha8Rng) -> Option<(usize, f64)> {
    let nums: Vec<usize> = (0..m.n()).filter(|i| !matches!(m.types[*i], VT::Bool)).collect();
    if nums.is_empty() {
        return None;
    }
    let i = nums[rng.gen_range(0..nums.len())];
    let (cmp, c, k, r) = if rng.gen_bool(0.5) {
        // (a small range: the other checks enumerate integer domains)
        let table: Vec<&(Cmp, f64, i32, f64)> = inexact_integer_rows().iter().filter(|t| t.2 <= 12).collect();
        let (cmp, c, k, r) = *table[rng.gen_range(0..table.len())];
        m.types[i] = VT::Int(0, 14);
        (cmp, c, k as f64, r)
    } else {
        let c = [1.9, 0.9, 3.7, 6.3, 0.7, 1.1, 2.3, 0.3, 3.8][rng.gen_range(0..9)];
        let (lo, hi) = match m.types[i] {
            VT::Int(a, b) => (a as f64, b as f64),
            VT::Real(a, b) | VT::NonNeg(a, b) => (a, b),
            VT::Bool => return None,
        };
        let (cmp, bound) = if rng.gen_bool(0.5) && lo.is_finite() {
            (Cmp::Le, lo)
        } else if hi.is_finite() {
            (Cmp::Ge, hi)
        } else {
            return None;
        };
        // the row must hold at the bound in exact arithmetic on the float constants (fl(c * bound) may round
        // to the wrong side of the exact product)
        let r = c * bound;
        let (Some(qc), Some(qb), Some(qr)) = (q(c), q(bound), q(r)) else { return None };
        let exact = &qc * &qb;
        if (cmp == Cmp::Le && exact > qr) || (cmp == Cmp::Ge && exact < qr) {
            return None;
        }
        (cmp, c, bound, r)
    };
    m.cons.push(Con { name: None, kind: CKind::Cmp(E::mul(E::Num(c), E::Var(i)), cmp, E::Num(r)) });
    // the objective pulls towards the bound, so that an optimum is lost with the point
    match (m.sense, cmp) {
        (Sense::Max, Cmp::Le) | (Sense::Min, Cmp::Ge) => m.obj = E::add(m.obj.clone(), E::mul(E::Num(if m.sense == Sense::Max { 3.0 } else { -3.0 }), E::Var(i))),
        _ => {}
    }
    Some((i, k))
}

impl Driver for C07 {
    fn id(&self) -> &'static str {
        "C07"
    }
    fn units(&self, tier: Tier) -> usize {
        tier.pick(1200, 16000)
    }
    fn run_unit(&self, ctx: &Ctx, out: &mut UnitOut, _start: usize, only: Option<usize>) {
        let mut rng = unit_rng(ctx, "C07", out.unit);
        let tol = pow10_neg(9);
        for case in 0..25 {
            let stratum = STRATA[rng.gen_range(0..STRATA.len())];
            let mut m = gen_model(&mut rng, stratum);
            if rng.gen_bool(0.25) {
                // chains that need several revisits: x0 <= x1 + c, x1 <= x2 + c, ...
                let nums: Vec<usize> = (0..m.n()).filter(|i| !matches!(m.types[*i], VT::Bool)).collect();
                for w in nums.windows(2) {
                    let c = [0.5, 1.0, -1.0, 1.9, 3.0, 7.0][rng.gen_range(0..6)];
                    let k = [1.0, 1.9, 3.0, 7.0, -2.0][rng.gen_range(0..5)];
                    m.cons.push(Con {
                        name: None,
                        kind: CKind::Cmp(E::mul(E::Num(k), E::Var(w[0])), Cmp::Le, E::add(E::Var(w[1]), E::Num(c))),
                    });
                }
            }
            // integer bounds that are inexact in floating point
            let mut forced: Option<(usize, i32)> = None;
            if rng.gen_bool(0.2) {
                let table = inexact_integer_rows();
                let (cmp, c, k, r) = table[rng.gen_range(0..table.len())];
                // only a numeric variable may be re-declared (a Boolean one can be a logic operand)
                let nums: Vec<usize> = (0..m.n()).filter(|i| !matches!(m.types[*i], VT::Bool)).collect();
                if !nums.is_empty() {
                    let i = nums[rng.gen_range(0..nums.len())];
                    m.types[i] = VT::Int(0, 64);
                    m.cons.push(Con { name: None, kind: CKind::Cmp(E::mul(E::Num(c), E::Var(i)), cmp, E::Num(r)) });
                    forced = Some((i, k));
                }
            }
            // a legitimately tiny coefficient on a variable with a huge range: the term matters (1e-10 * 1e12 = 100)
            let mut tiny: Option<(usize, usize, f64)> = None;
            if forced.is_none() && rng.gen_bool(0.08) {
                let nums: Vec<usize> = (0..m.n()).filter(|i| !matches!(m.types[*i], VT::Bool)).collect();
                if nums.len() >= 2 {
                    let (y, x) = (nums[0], nums[1]);
                    let c = [1e-10, 2.5e-10, 5e-11][rng.gen_range(0..3)];
                    m.types[x] = VT::Real(0.0, 1e12);
                    m.types[y] = VT::Real(-1000.0, 1000.0);
                    // y - c*x <= 5 (the tiny term is not the leftmost one)
                    m.cons.push(Con { name: None, kind: CKind::Cmp(E::sub(E::Var(y), E::mul(E::Num(c), E::Var(x))), Cmp::Le, E::Num(5.0)) });
                    tiny = Some((y, x, c));
                }
            }
            let mut prng = unit_rng(ctx, "C07p", out.unit * 1000 + case);
            if only.is_some_and(|o| o != case) {
                continue;
            }
            out.case = case;
            let model = match std::panic::catch_unwind(std::panic::AssertUnwindSafe(|| m.to_model())) {
                Ok(x) => x,
                Err(_) => continue,
            };
            let detail = |extra: Value| json!({"model": m.show(), "detail": extra});
            let mut reported = false;
            let mut pts = point_set(&m, None, &mut prng, 60);
            if let Some((i, k)) = forced {
                // the tight integer value, combined with every sampled value of the other variables
                let mut extra: Vec<Vec<Q>> = pts.iter().take(30).cloned().collect();
                for p in extra.iter_mut() {
                    p[i] = qi(k as i64);
                }
                pts.extend(extra);
            }
            if let Some((y, x, c)) = tiny {
                // points with x at the far end of its range and y just inside the row
                let mut extra: Vec<Vec<Q>> = pts.iter().take(20).cloned().collect();
                for (n, p) in extra.iter_mut().enumerate() {
                    p[x] = q(1e12).unwrap();
                    p[y] = q(5.0 + c * 1e12 - 1.0 - n as f64).unwrap();
                }
                pts.extend(extra);
            }
            let feasible_pts: Vec<&Vec<Q>> = pts.iter().filter(|p| m.feasible(p, &zero()) == Feas::Yes).collect();
            if tiny.is_some() && !feasible_pts.is_empty() {
                out.tag("tiny-coefficient-huge-range:feasible-point");
            }
            if let Some((i, k)) = forced {
                if feasible_pts.iter().any(|p| p[i] == qi(k as i64)) {
                    out.tag("inexact-integer-bound:tight-point-feasible");
                }
            }
            // (a) published ranges of the compiled model
            if let Compiled::Ok(lm) = compile_m(&m) {
                out.tag("compiled");
                for (i, n) in m.names.iter().enumerate() {
                    let Some(dv) = lm.domain().get(n) else { continue };
                    let (lo, hi, _) = vt_bounds(dv.get_type());
                    if lo.is_nan() || hi.is_nan() {
                        if !reported {
                            reported = true;
                            out.violation("published-range-nan", &format!("published range of {n} is [{lo}, {hi}]"), detail(json!({"linear_model": lm.to_string()})));
                        }
                        continue;
                    }
                    for p in &feasible_pts {
                        out.eval();
                        if !inside(&p[i], lo, hi, &tol) && !reported {
                            reported = true;
                            out.violation(
                                &format!("published-range-excludes-feasible-point({})", match m.types[i] { VT::Bool => "Boolean", VT::Int(..) => "IntegerRange", VT::Real(..) => "Real", VT::NonNeg(..) => "NonNegativeReal" }),
                                &format!("published range [{lo}, {hi}] of {n} excludes its value {} at a source-feasible assignment", show(&p[i])),
                                detail(json!({"point": point_json(&m, p), "linear_model": lm.to_string()})),
                            );
                        }
                    }
                    if !feasible_pts.is_empty() {
                        out.tag("published-range-checked");
                    }
                }
                // affine models: the true extreme values of every variable must be inside
                if let Some(slp) = source_as_lp(&m) {
                    for i in 0..m.n() {
                        let Some(dv) = lm.domain().get(&m.names[i]) else { continue };
                        let (lo, hi, _) = vt_bounds(dv.get_type());
                        for maximize in [false, true] {
                            let mut lp = slp.clone();
                            lp.c = vec![zero(); m.n()];
                            lp.c[i] = one();
                            lp.c0 = zero();
                            lp.maximize = maximize;
                            out.eval();
                            match solve_milp(&lp, 5000) {
                                Ok((LpAnswer::Optimal { value, x }, _)) => {
                                    if !inside(&value, lo, hi, &tol) && !reported {
                                        reported = true;
                                        out.violation(
                                            "published-range-excludes-true-extreme(affine)",
                                            &format!("{} can reach {} in the source model but its published range is [{lo}, {hi}]", m.names[i], show(&value)),
                                            detail(json!({"point": point_json(&m, &x), "linear_model": lm.to_string()})),
                                        );
                                    }
                                    out.tag("true-extreme-checked");
                                }
                                Ok((LpAnswer::Unbounded { .. }, _)) => {
                                    let bound = if maximize { hi } else { lo };
                                    if bound.is_finite() && !reported {
                                        reported = true;
                                        out.violation(
                                            "published-range-bounds-an-unbounded-variable(affine)",
                                            &format!("{} is unbounded in the source model but its published range is [{lo}, {hi}]", m.names[i]),
                                            detail(json!({"linear_model": lm.to_string()})),
                                        );
                                    }
                                }
                                _ => {}
                            }
                        }
                    }
                }
            }
            // (b),(c),(d) derived ranges through the hook, with full and truncated propagation
            for steps in [None, Some(0usize), Some(1), Some(2), Some(5), Some(50)] {
                let db = derived_bounds(&model, steps);
                let vars = db.variables();
                let ranges: Vec<(f64, f64)> = m.names.iter().map(|n| vars.get(n).copied().unwrap_or((f64::NEG_INFINITY, f64::INFINITY))).collect();
                let label = match steps {
                    None => "full".to_string(),
                    Some(k) => format!("max_steps={k}"),
                };
                if db.reached_limit() {
                    out.tag("propagation-stopped-at-limit");
                }
                if db.infeasible() {
                    out.tag("analysis-detected-infeasible");
                }
                for (i, (lo, hi)) in ranges.iter().enumerate() {
                    if (lo.is_nan() || hi.is_nan()) && !reported {
                        reported = true;
                        out.violation("derived-range-nan", &format!("derived range of {} is [{lo}, {hi}] ({label})", m.names[i]), detail(Value::Null));
                    }
                    for p in &feasible_pts {
                        out.eval();
                        if !inside(&p[i], *lo, *hi, &tol) && !reported {
                            reported = true;
                            out.violation(
                                &format!("derived-range-excludes-feasible-point({})", if steps.is_none() { "full" } else { "truncated" }),
                                &format!("derived range [{lo}, {hi}] of {} ({label}) excludes its value {} at a source-feasible assignment", m.names[i], show(&p[i])),
                                detail(json!({"point": point_json(&m, p)})),
                            );
                        }
                    }
                }
                if !feasible_pts.is_empty() {
                    out.tag("derived-range-checked");
                }
                // forward enclosure of every sub-expression at points of the derived box
                let subs = sub_expressions(&m);
                let qs = box_points(&m, &ranges, &mut prng, if steps.is_none() { 12 } else { 4 });
                for e in &subs {
                    if matches!(e, E::Num(_)) {
                        continue;
                    }
                    let (lo, hi) = db.bounds_of(&e.to_exp(&m.names));
                    if (lo.is_nan() || hi.is_nan()) && !reported {
                        reported = true;
                        out.violation("expression-range-nan", &format!("bounds_of({}) = [{lo}, {hi}]", e.show(&m.names)), detail(Value::Null));
                        continue;
                    }
                    for qp in &qs {
                        // only points inside the ranges count
                        if !qp.iter().zip(&ranges).all(|(v, (l, h))| inside(v, *l, *h, &zero())) {
                            continue;
                        }
                        // logic sub-expressions are only defined on 0/1 operands
                        let Ok(v) = e.eval(qp) else { continue };
                        if e.is_logic_root() || matches!(e, E::Var(_)) && false {
                            // value of a logic operator is 0/1 whatever the operands
                        }
                        out.eval();
                        if !inside(&v, lo, hi, &tol) && !reported {
                            reported = true;
                            out.violation(
                                &format!("expression-range-excludes-value({})", match e { E::Abs(_) => "abs", E::Min(_) => "min", E::Max(_) => "max", E::Mul(..) | E::Div(..) => "scale", E::Add(..) | E::Sub(..) | E::Neg(_) => "sum", E::Var(_) => "variable", _ => "logic" }),
                                &format!("bounds_of({}) = [{lo}, {hi}] ({label}) but the expression takes the value {} inside the variable ranges", e.show(&m.names), show(&v)),
                                detail(json!({"point": point_json(&m, qp), "ranges": ranges})),
                            );
                        }
                    }
                }
                out.tag("expression-ranges-checked");
            }
            // (e) the analysis as the linearizer uses it (after the derived ranges were written into the domain and the
            // analysis restricted to what the domain carries): every sub-expression range holds on the PUBLISHED box -
            // a Boolean narrowed to [1, 1] is still published as {0, 1}, and the rewrites work with these ranges
            {
                let (db, published) = rooc::verif_bounds::derived_bounds_as_used(&model);
                let ranges: Vec<(f64, f64)> = m.names.iter().map(|n| published.get(n).copied().unwrap_or((f64::NEG_INFINITY, f64::INFINITY))).collect();
                let qs = box_points(&m, &ranges, &mut prng, 12);
                for e in &sub_expressions(&m) {
                    if matches!(e, E::Num(_)) {
                        continue;
                    }
                    let (lo, hi) = db.bounds_of(&e.to_exp(&m.names));
                    for qp in &qs {
                        if !qp.iter().zip(&ranges).all(|(v, (l, h))| inside(v, *l, *h, &zero())) {
                            continue;
                        }
                        if (0..m.n()).any(|i| m.types[i].is_discrete() && !qp[i].is_integer()) {
                            continue;
                        }
                        let Ok(v) = e.eval(qp) else { continue };
                        out.eval();
                        if !inside(&v, lo, hi, &tol) && !reported {
                            reported = true;
                            out.violation(
                                "expression-range-excludes-value-on-published-box",
                                &format!("bounds_of({}) = [{lo}, {hi}] as the linearizer uses it, but the expression takes the value {} inside the published variable ranges", e.show(&m.names), show(&v)),
                                detail(json!({"point": point_json(&m, qp), "published_ranges": ranges})),
                            );
                        }
                    }
                }
                out.tag("expression-ranges-checked-on-published-box");
            }
            // (f) the strict comparisons: the same model with its first <= / >= row written < / > accepts a subset of
            // the assignments, so every range it publishes or derives must contain the assignments that satisfy that
            // row strictly (no solver takes strict rows; only the ranges can be observed)
            if let Some(k) = m.cons.iter().position(|c| matches!(c.kind, CKind::Cmp(_, Cmp::Le | Cmp::Ge, _))) {
                let mut trng = unit_rng(ctx, "C07t", out.unit * 1000 + case);
                let text = crate::text::model_text(&m, &mut trng, crate::text::Style::plain());
                let body = text.find("s.t.").unwrap_or(0);
                let pos = [text[body..].find(" <= "), text[body..].find(" >= ")].into_iter().flatten().min();
                let CKind::Cmp(l, cmp, r) = &m.cons[k].kind else { unreachable!() };
                if let Some(at) = pos {
                    let at = body + at;
                    let found_le = &text[at..at + 4] == " <= ";
                    if found_le == (*cmp == Cmp::Le) {
                        let strict = format!("{}{}{}", &text[..at], if found_le { " < " } else { " > " }, &text[at + 4..]);
                        let parsed = std::panic::catch_unwind(|| rooc::RoocParser::new(strict.clone()).parse_and_transform(vec![], &indexmap::IndexMap::new()));
                        if let Ok(Ok(model_s)) = parsed {
                            let strictly: Vec<&Vec<Q>> = feasible_pts
                                .iter()
                                .map(|p| &**p)
                                .filter(|p| match (l.eval(p), r.eval(p)) {
                                    (Ok(a), Ok(b_)) => a != b_,
                                    _ => false,
                                })
                                .collect();
                            let db = derived_bounds(&model_s, None);
                            let vars = db.variables();
                            let lin = std::panic::catch_unwind(std::panic::AssertUnwindSafe(|| rooc::Linearizer::linearize(model_s)));
                            for (i, n) in m.names.iter().enumerate() {
                                let derived = vars.get(n).copied().unwrap_or((f64::NEG_INFINITY, f64::INFINITY));
                                let published = match &lin {
                                    Ok(Ok(lm)) => lm.domain().get(n).map(|dv| {
                                        let (lo, hi, _) = vt_bounds(dv.get_type());
                                        (lo, hi)
                                    }),
                                    _ => None,
                                };
                                for p in &strictly {
                                    out.eval();
                                    for (which, range) in [("derived", Some(derived)), ("published", published)] {
                                        let Some((lo, hi)) = range else { continue };
                                        if !inside(&p[i], lo, hi, &tol) && !reported {
                                            reported = true;
                                            out.violation(
                                                &format!("{which}-range-excludes-feasible-point(strict-row)"),
                                                &format!("with the row written as a strict comparison the {which} range [{lo}, {hi}] of {n} excludes its value {} at an assignment that satisfies the row strictly", show(&p[i])),
                                                detail(json!({"point": point_json(&m, p), "text": strict})),
                                            );
                                        }
                                    }
                                }
                            }
                            if !strictly.is_empty() {
                                out.tag("strict-row-twin-checked");
                            }
                        }
                    }
                }
            }
            if !feasible_pts.is_empty() {
                out.nontrivial(hash_str(&format!("{:?}", m)));
            }
            if out.report.samples.is_empty() && out.unit < 16 {
                let db = derived_bounds(&model, None);
                out.sample(json!({"model": m.show(), "derived": db.variables().iter().map(|(k, v)| format!("{k} in [{}, {}]", v.0, v.1)).collect::<Vec<_>>()}));
            }
        }
    }
    fn rule(&self) -> String {
        "G-model models (all strata, plus chains x_i*k <= x_{i+1} + c with k in {1.9, 3, 7, -2} that need several revisits and make propagated bounds inexact; in 20% of the cases an integer variable gets a row c*x <= r or c*x >= r from a table of (c, k) pairs for which the row holds at x = k in exact arithmetic while r/c or r*(1/c) lands an ulp on the wrong side of k in floating point, and the point x = k is added to the sampled assignments; in 8% a row y - c*x <= 5 with c around 1e-10 and x in [0, 1e12], with sample points at x = 1e12); (a) every published range of the compiled linear model must contain the variable's value at every exactly source-feasible sampled assignment, and for affine models the certified true minimum/maximum of the variable; (b) through hook H1, with full propagation and with max_steps in {0,1,2,5,50}: the derived range of every variable contains those values, and bounds_of(e) of every sub-expression contains the exact value of e at points of the derived box (corners, midpoints, thirds, integer points, +-1e6 in unbounded directions); ranges are never NaN. non-trivial = model with at least one source-feasible sampled assignment".into()
    }
    fn thresholds(&self, tier: Tier) -> Thresholds {
        let s = tier.pick(6, 80);
        Thresholds {
            min_tags: vec![
                ("published-range-checked", 1000 * s),
                ("derived-range-checked", 5000 * s),
                ("expression-ranges-checked", 10000 * s),
                ("true-extreme-checked", 300 * s),
                ("propagation-stopped-at-limit", 500 * s),
                ("analysis-detected-infeasible", 200 * s),
                ("inexact-integer-bound:tight-point-feasible", 100 * s),
                ("tiny-coefficient-huge-range:feasible-point", 20 * s),
            ],
            min_nontrivial: 1000 * s,
        }
    }
}

// ---------------------------------------------------------------------------
// C08
// ---------------------------------------------------------------------------

/// M-wellformed: structural invariants of a compiled linear model. Returns (signature, explanation).
pub fn wellformed(lm: &rooc::LinearModel, src: Option<&M>) -> Vec<(String, String)> {
    let mut bad = vec![];
    let vars = lm.variables();
    let mut sorted = vars.clone();
    sorted.sort();
    if *vars != sorted {
        bad.push(("variables-not-sorted".to_string(), format!("variable list {:?}", vars)));
    }
    let mut dedup = sorted.clone();
    dedup.dedup();
    if dedup.len() != vars.len() {
        bad.push(("duplicate-variable".to_string(), format!("variable list {:?}", vars)));
    }
    let keys: std::collections::BTreeSet<&String> = lm.domain().keys().collect();
    let vset: std::collections::BTreeSet<&String> = vars.iter().collect();
    if keys != vset {
        bad.push((
            "variables-differ-from-domain-keys".to_string(),
            format!("variables {:?} vs domain keys {:?}", vars, lm.domain().keys().collect::<Vec<_>>()),
        ));
    }
    let n = vars.len();
    if lm.objective().len() != n {
        bad.push(("objective-length".to_string(), format!("{} objective coefficients for {n} variables", lm.objective().len())));
    }
    for (j, c) in lm.objective().iter().enumerate() {
        if !c.is_finite() {
            bad.push(("non-finite-objective-coefficient".to_string(), format!("objective coefficient {j} is {c}")));
        }
    }
    if !lm.objective_offset().is_finite() {
        bad.push(("non-finite-offset".to_string(), format!("objective offset is {}", lm.objective_offset())));
    }
    let mut names = std::collections::HashSet::new();
    for (i, r) in lm.constraints().iter().enumerate() {
        if r.coefficients().len() != n {
            bad.push(("row-length".to_string(), format!("row {i} has {} coefficients for {n} variables", r.coefficients().len())));
        }
        if r.coefficients().iter().any(|c| !c.is_finite()) {
            bad.push(("non-finite-row-coefficient".to_string(), format!("row {i} '{}' has a non-finite coefficient", r.name())));
        }
        if !r.rhs().is_finite() {
            bad.push(("non-finite-rhs".to_string(), format!("row {i} '{}' has right-hand side {}", r.name(), r.rhs())));
        }
        if !r.name().is_empty() && !names.insert(r.name()) {
            bad.push(("duplicate-row-name".to_string(), format!("row name '{}' occurs twice", r.name())));
        }
    }
    for (name, dv) in lm.domain() {
        let (lo, hi, _) = vt_bounds(dv.get_type());
        if lo.is_nan() || hi.is_nan() {
            bad.push(("domain-bound-nan".to_string(), format!("{name} has range [{lo}, {hi}]")));
        }
    }
    if let Some(m) = src {
        for i in m.vars_used() {
            if !vars.contains(&m.names[i]) {
                bad.push(("source-variable-missing".to_string(), format!("variable {} occurs in the source but not in the linear model", m.names[i])));
            }
        }
        for v in vars {
            if !m.names.contains(v) && !v.starts_with('$') {
                bad.push(("auxiliary-without-reserved-prefix".to_string(), format!("compiler-introduced variable {v} could collide with a user name")));
            }
        }
        // a named constraint that some assignment of the declared ranges violates cannot have been dropped as a
        // tautology: rows enforce it, and the first of them keeps the user's name
        {
            let corner = |i: usize, k: usize| -> Q {
                let (lo, hi) = m.types[i].bounds();
                let pick = |v: f64, alt: i64| q(v).unwrap_or_else(|| qi(alt));
                match (m.types[i], k % 3) {
                    (VT::Bool, kk) => qi((kk % 2) as i64),
                    (_, 0) => pick(lo, -3),
                    (_, 1) => pick(hi, 3),
                    _ => {
                        let (a, b_) = (pick(lo, -3), pick(hi, 3));
                        ((a + b_) / qi(2)).floor()
                    }
                }
            };
            let mut names_seen: Vec<&String> = vec![];
            for c in &m.cons {
                let Some(name) = &c.name else { continue };
                if names_seen.contains(&name) {
                    continue; // later uses get suffixed names (checked below)
                }
                names_seen.push(name);
                if lm.constraints().iter().any(|r| r.name() == *name) {
                    continue;
                }
                // 3^n corners / midpoints, n <= 4
                let n = m.n();
                let mut violated = false;
                for code in 0..3usize.pow(n.min(4) as u32) {
                    let p: Vec<Q> = (0..n).map(|i| corner(i, code / 3usize.pow(i.min(3) as u32))).collect();
                    let holds = match &c.kind {
                        CKind::Cmp(l, cmp, r) => match (l.eval(&p), r.eval(&p)) {
                            (Ok(a), Ok(b_)) => Some(cmp.holds(&a, &b_, &zero())),
                            _ => None,
                        },
                        CKind::Assert(e) => e.eval(&p).ok().map(|v| !v.is_zero()),
                    };
                    if holds == Some(false) {
                        violated = true;
                        break;
                    }
                }
                if violated {
                    bad.push(("user-row-name-lost".to_string(), format!("the constraint named '{name}' can be violated, yet no row of the linear model carries its name")));
                }
            }
        }
        // names: every named row carries a user name or <user name>__k; a suffixed name implies the plain one
        let user: Vec<&String> = m.cons.iter().filter_map(|c| c.name.as_ref()).collect();
        for r in lm.constraints() {
            let rn = r.name();
            if rn.is_empty() {
                continue;
            }
            let base_ok = user.iter().any(|u| **u == rn)
                || user.iter().any(|u| rn.strip_prefix(u.as_str()).is_some_and(|rest| rest.starts_with("__") && rest[2..].chars().all(|c| c.is_ascii_digit()) && rest.len() > 2));
            if !base_ok {
                bad.push(("row-name-not-from-source".to_string(), format!("row name '{rn}' was not written by the user")));
            }
            if let Some(pos) = rn.rfind("__") {
                let base = &rn[..pos];
                if user.iter().any(|u| u.as_str() == base) && !user.iter().any(|u| **u == rn) && !lm.constraints().iter().any(|x| x.name() == base) {
                    bad.push(("first-use-of-name-not-preserved".to_string(), format!("row '{rn}' exists but no row keeps the user name '{base}'")));
                }
            }
        }
    }
    bad
}

/// The model with every division by a power of two written as a multiplication by its reciprocal.
fn div_twin(m: &M) -> Option<M> {
    fn rw(e: &E, changed: &mut bool) -> E {
        let r = |x: &E, ch: &mut bool| Box::new(rw(x, ch));
        match e {
            E::Div(a, c) => match &**c {
                E::Num(k) if *k != 0.0 && k.is_finite() && (1.0 / k) * k == 1.0 && 1.0 / (1.0 / k) == *k && k.abs().log2().fract() == 0.0 => {
                    *changed = true;
                    E::Mul(r(a, changed), Box::new(E::Num(1.0 / k)))
                }
                _ => E::Div(r(a, changed), r(c, changed)),
            },
            E::Num(_) | E::Var(_) => e.clone(),
            E::Abs(a) => E::Abs(r(a, changed)),
            E::Not(a) => E::Not(r(a, changed)),
            E::Neg(a) => E::Neg(r(a, changed)),
            E::Min(xs) => E::Min(xs.iter().map(|x| rw(x, changed)).collect()),
            E::Max(xs) => E::Max(xs.iter().map(|x| rw(x, changed)).collect()),
            E::And(xs) => E::And(xs.iter().map(|x| rw(x, changed)).collect()),
            E::Or(xs) => E::Or(xs.iter().map(|x| rw(x, changed)).collect()),
            E::Xor(a, c) => E::Xor(r(a, changed), r(c, changed)),
            E::Implies(a, c) => E::Implies(r(a, changed), r(c, changed)),
            E::Iff(a, c) => E::Iff(r(a, changed), r(c, changed)),
            E::Add(a, c) => E::Add(r(a, changed), r(c, changed)),
            E::Sub(a, c) => E::Sub(r(a, changed), r(c, changed)),
            E::Mul(a, c) => E::Mul(r(a, changed), r(c, changed)),
        }
    }
    let mut changed = false;
    let mut t = m.clone();
    t.obj = rw(&m.obj, &mut changed);
    for c in t.cons.iter_mut() {
        c.kind = match &c.kind {
            CKind::Cmp(l, cmp, r) => CKind::Cmp(rw(l, &mut changed), *cmp, rw(r, &mut changed)),
            CKind::Assert(e) => CKind::Assert(rw(e, &mut changed)),
        };
    }
    if changed { Some(t) } else { None }
}

fn hostile_model(rng: &mut ChaCha8Rng) -> M {
    let stratum = STRATA[rng.gen_range(0..STRATA.len())];
    let mut m = gen_model(rng, stratum);
    match rng.gen_range(0..6) {
        0 => {
            // infinite constants in comparison position / inside expressions
            let inf = if rng.gen_bool(0.5) { f64::INFINITY } else { f64::NEG_INFINITY };
            let i = rng.gen_range(0..m.n());
            let kind = match rng.gen_range(0..4) {
                0 => CKind::Cmp(E::Var(i), Cmp::Le, E::Num(inf)),
                1 => CKind::Cmp(E::add(E::Var(i), E::Num(inf)), Cmp::Ge, E::Num(1.0)),
                2 => CKind::Cmp(E::Max(vec![E::Var(i), E::Num(inf)]), Cmp::Le, E::Num(3.0)),
                _ => CKind::Cmp(E::sub(E::Num(inf), E::Num(inf)), Cmp::Le, E::Var(i)),
            };
            if rng.gen_bool(0.2) {
                m.cons.push(Con { name: None, kind: CKind::Cmp(E::mul(E::Num(inf), E::Var(i)), Cmp::Le, E::Num(2.0)) });
            }
            m.cons.push(Con { name: None, kind });
            if rng.gen_bool(0.3) {
                m.obj = E::add(m.obj.clone(), E::sub(E::Num(f64::INFINITY), E::Num(f64::INFINITY)));
            }
        }
        1 => {
            // user variables named like auxiliaries
            let pool = ["$abs_0", "$min_0", "$max_0", "$min_0_select_1", "$abs_0_positive", "$and_0", "$or_0", "$logic_witness_0", "$iff_0"];
            for i in 0..m.n() {
                if rng.gen_bool(0.6) {
                    m.names[i] = pool[rng.gen_range(0..pool.len())].to_string();
                }
            }
            let mut seen = std::collections::HashSet::new();
            for (i, n) in m.names.clone().iter().enumerate() {
                if !seen.insert(n.clone()) {
                    m.names[i] = format!("u{i}");
                }
            }
        }
        2 => {
            // duplicate and generated-looking constraint names
            let pool = ["c", "c__2", "cap", "cap__2", "cap__3", "c__2__2"];
            for c in m.cons.iter_mut() {
                c.name = Some(pool[rng.gen_range(0..pool.len())].to_string());
            }
        }
        3 => {
            // unbounded declarations under exact abs / min / max
            for t in m.types.iter_mut() {
                if !matches!(t, VT::Bool) && rng.gen_bool(0.7) {
                    *t = if rng.gen_bool(0.5) { VT::Real(f64::NEG_INFINITY, f64::INFINITY) } else { VT::NonNeg(0.0, f64::INFINITY) };
                }
            }
        }
        4 => {
            // empty aggregations
            let kind = match rng.gen_range(0..4) {
                0 => CKind::Cmp(E::Min(vec![]), Cmp::Le, E::Num(1.0)),
                1 => CKind::Cmp(E::Max(vec![]), Cmp::Ge, E::Num(1.0)),
                2 => CKind::Assert(E::And(vec![])),
                _ => CKind::Assert(E::Or(vec![])),
            };
            m.cons.push(Con { name: Some("agg".into()), kind });
        }
        _ => {}
    }
    m
}

impl Driver for C08 {
    fn id(&self) -> &'static str {
        "C08"
    }
    fn units(&self, tier: Tier) -> usize {
        tier.pick(16000, 1200000)
    }
    fn run_unit(&self, ctx: &Ctx, out: &mut UnitOut, _start: usize, only: Option<usize>) {
        let mut rng = unit_rng(ctx, "C08", out.unit);
        for case in 0..25 {
            let hostile = case % 3 == 0;
            let m = if hostile {
                hostile_model(&mut rng)
            } else {
                let stratum = STRATA[rng.gen_range(0..STRATA.len())];
                gen_model(&mut rng, stratum)
            };
            // a declared variable whose only occurrences are multiplied by a zero written on the left: it occurs in
            // the source, so it is a column (an all-zero one); checked through the text door, which marks usage itself
            let mut zero_factor: Option<M> = None;
            if !hostile && rng.gen_bool(0.25) && m.n() < 4 {
                let mut t = m.clone();
                t.names.push("zed".into());
                t.types.push(VT::Real(0.0, 5.0));
                let z = E::Var(t.n() - 1);
                let term = E::mul(E::Num(0.0), z);
                match rng.gen_range(0..3) {
                    0 if t.sense != Sense::Satisfy => t.obj = E::add(t.obj.clone(), term),
                    1 => t.cons.push(Con { name: None, kind: CKind::Cmp(term, Cmp::Ge, E::Num(-1.0)) }),
                    _ => t.cons.push(Con { name: None, kind: CKind::Cmp(E::add(E::Var(0), term), Cmp::Le, E::Num(9.0)) }),
                }
                zero_factor = Some(t);
            }
            if only.is_some_and(|o| o != case) {
                continue;
            }
            out.case = case;
            out.eval();
            if case == 24 {
                // an abs whose sign is unknown needs its operand exactly, and an exact min/max needs finite bounds of its
                // operands: with unbounded operands these rows can only be refused. If one of them compiles, the compiled
                // rows are tested at a point the source excludes
                let unb = VT::Real(f64::NEG_INFINITY, f64::INFINITY);
                let (x, y) = (E::Var(0), E::Var(1));
                let (con, bad): (Con, [i64; 2]) = match out.unit % 4 {
                    0 => (Con { name: None, kind: CKind::Cmp(E::Abs(Box::new(E::Max(vec![x.clone(), y.clone()]))), Cmp::Le, E::Num(5.0)) }, [-100, -100]),
                    1 => (Con { name: None, kind: CKind::Cmp(E::Num(5.0), Cmp::Ge, E::Abs(Box::new(E::Max(vec![x.clone(), y.clone()])))) }, [-100, -40]),
                    2 => (Con { name: None, kind: CKind::Cmp(E::Abs(Box::new(E::Min(vec![x.clone(), y.clone()]))), Cmp::Le, E::Num(5.0)) }, [100, 100]),
                    _ => (Con { name: None, kind: CKind::Cmp(E::Neg(Box::new(E::Abs(Box::new(E::Max(vec![x.clone(), y.clone()]))))), Cmp::Ge, E::Num(-5.0)) }, [-100, -100]),
                };
                let t = M { names: vec!["x".into(), "y".into()], types: vec![unb, unb], cons: vec![con], sense: Sense::Satisfy, obj: E::Num(0.0) };
                match compile_m(&t) {
                    Compiled::Rejected(e) if lin_err_kind(&e) == "MissingFiniteBounds" => out.tag("abs-over-extreme-without-bounds:refused"),
                    Compiled::Ok(lm) => {
                        if let Ok(xl) = XLin::from_rooc(&lm) {
                            let p: Vec<Q> = bad.iter().map(|v| qi(*v)).collect();
                            let fixed = crate::props::c01::fix_vector(&t, &xl, &p);
                            if let Ok(Ext::Yes { .. }) | Ok(Ext::Unbounded) = extend(&xl, &fixed, &crate::props::c01::eps9(), false, 4000) {
                                out.violation(
                                    "exact-lowering-without-finite-bounds-compiled(relaxation)",
                                    &format!("the row compiles although its operands have no finite bounds, and the compiled rows accept x = {}, y = {}, which the source excludes", bad[0], bad[1]),
                                    json!({"model": t.show(), "linear_model": lm.to_string()}),
                                );
                                continue;
                            }
                        }
                        out.tag("abs-over-extreme-without-bounds:compiled-exactly");
                    }
                    _ => out.tag("abs-over-extreme-without-bounds:other-error"),
                }
            }
            if let Some(t) = &zero_factor {
                let mut trng = unit_rng(ctx, "C08t", out.unit * 100 + case);
                let text = crate::text::model_text(t, &mut trng, crate::text::Style::plain());
                if let crate::props::c12::Recompiled::Ok(lm) = crate::props::c12::compile_text(&text) {
                    out.tag("zero-factor-variable:compiled-from-text");
                    if let Some((sig, what)) = wellformed(&lm, Some(t)).into_iter().next() {
                        out.violation(&format!("{sig}(text door)"), &what, json!({"text": text, "linear_model": lm.to_string()}));
                        continue;
                    }
                }
            }
            // whether an exact lowering is needed (and hence whether missing bounds are an error) may not
            // depend on how a constant scale is written: e / c against e * (1/c), c a power of two
            if let Some(twin) = div_twin(&m) {
                let class = |c: &Compiled| match c {
                    Compiled::Ok(_) => "ok".to_string(),
                    Compiled::Rejected(e) => lin_err_kind(e).to_string(),
                    Compiled::Panicked(_) => "panic".to_string(),
                };
                let (a, b_) = (class(&compile_m(&m)), class(&compile_m(&twin)));
                out.tag("division-twin-compared");
                if a != b_ && (a == "MissingFiniteBounds" || b_ == "MissingFiniteBounds") {
                    out.violation(
                        "missing-bounds-error-depends-on-the-spelling-of-a-scale",
                        &format!("with 'e / c' the model is {a}, with 'e * (1/c)' it is {b_}"),
                        json!({"model": m.show(), "twin": twin.show()}),
                    );
                    continue;
                }
            }
            match compile_m(&m) {
                Compiled::Ok(lm) => {
                    out.tag(if hostile { "compiled:hostile" } else { "compiled:regular" });
                    let mut bad = wellformed(&lm, Some(&m));
                    // a user variable named like an auxiliary must stay a column of its own: the same model
                    // with neutral names has to compile to the same number of columns and rows
                    if m.names.iter().any(|n| n.starts_with('$')) {
                        let mut twin = m.clone();
                        for (i, n) in twin.names.iter_mut().enumerate() {
                            *n = format!("hv{i}");
                        }
                        if let Compiled::Ok(lt) = compile_m(&twin) {
                            out.tag("auxiliary-named-user-variable:compared-with-neutral-twin");
                            if lt.variables().len() != lm.variables().len() || lt.constraints().len() != lm.constraints().len() {
                                bad.push((
                                    "user-variable-shares-a-column-with-an-auxiliary".to_string(),
                                    format!("{} columns / {} rows, but {} / {} when the user variables have neutral names", lm.variables().len(), lm.constraints().len(), lt.variables().len(), lt.constraints().len()),
                                ));
                            }
                        }
                    }
                    if bad.is_empty() {
                        out.tag("wellformed");
                        out.nontrivial(hash_str(&format!("{:?}", m)));
                        if lm.constraints().iter().any(|r| r.name().contains("__")) {
                            out.tag("deduplicated-row-name");
                        }
                        if out.report.samples.is_empty() && out.unit < 16 {
                            out.sample(json!({"model": m.show(), "linear_model": lm.to_string()}));
                        }
                    } else {
                        let (sig, what) = &bad[0];
                        // a non-finite number in the output is keyed on whether the source itself
                        // contains an infinite constant (known) or not (a new defect)
                        let mut src_inf = false;
                        for e in m.all_exprs() {
                            e.visit(&mut |x| {
                                if let E::Num(f) = x {
                                    if !f.is_finite() {
                                        src_inf = true;
                                    }
                                }
                            });
                        }
                        let sig = if (sig.starts_with("non-finite") || sig.contains("nan")) && src_inf {
                            "non-finite-number-in-output(infinite-constant-in-source)".to_string()
                        } else if sig.starts_with("non-finite") || sig.contains("nan") {
                            format!("{sig}(finite-source)")
                        } else {
                            sig.clone()
                        };
                        out.violation(&sig, what, json!({"model": m.show(), "linear_model": lm.to_string(), "all": bad}));
                    }
                }
                Compiled::Rejected(e) => {
                    out.tag(&format!("rejected:{}", lin_err_kind(&e)));
                    if let rooc::LinearizationError::MissingFiniteBounds { variables, lower, upper, .. } = &e {
                        // the error must name unbounded variables, and they must really be unbounded
                        let model = m.to_model();
                        let db = derived_bounds(&model, None);
                        let vars = db.variables();
                        if variables.is_empty() && (lower.is_finite() && upper.is_finite()) {
                            out.violation("missing-bounds-error-without-cause", "MissingFiniteBounds reported with finite bounds and no variable", json!({"model": m.show(), "error": e.to_string()}));
                        } else if variables.is_empty() {
                            out.violation("missing-bounds-error-names-no-variable", "MissingFiniteBounds does not name any unbounded variable", json!({"model": m.show(), "error": e.to_string()}));
                        } else {
                            let mut ok = true;
                            for v in variables {
                                match vars.get(v) {
                                    Some((lo, hi)) if lo.is_finite() && hi.is_finite() => ok = false,
                                    _ => {}
                                }
                            }
                            if ok {
                                out.tag("missing-bounds-error-justified");
                                out.nontrivial(hash_str(&format!("{:?}", m)));
                            } else {
                                out.violation("missing-bounds-error-names-bounded-variable", "MissingFiniteBounds lists a variable whose derived range is finite", json!({"model": m.show(), "error": e.to_string()}));
                            }
                        }
                    }
                }
                Compiled::Panicked(_) => out.inconclusive("panic while compiling (C18's concern)"),
            }
        }
    }
    fn rule(&self) -> String {
        "G-model models (two thirds regular, one third hostile: Infinity/-Infinity constants in comparison position, inside sums and under max, Infinity-Infinity in rows and objective; user variables named $abs_0, $min_0_select_1, ...; duplicate and generated-looking constraint names c, c__2, cap__3; unbounded declarations under exact abs/min/max; empty min/max/all/any); every compiled linear model is checked by the well-formedness monitor (sorted duplicate-free variable list == domain keys, source variables present, one coefficient per variable, all numbers finite, unique row names derived from user names with the first use preserved, auxiliaries carry the reserved $ prefix; a model with $-named user variables that compiles must have as many columns and rows as its twin with neutral names); every MissingFiniteBounds error must name variables whose derived range (hook H1) is really non-finite; a model with a division by a power of two and its twin written with the reciprocal product must both or neither fail with MissingFiniteBounds. non-trivial = compiled well-formed model or justified missing-bounds error".into()
    }
    fn thresholds(&self, tier: Tier) -> Thresholds {
        let s = tier.pick(40, 400);
        Thresholds {
            min_tags: vec![
                ("compiled:regular", 3000 * s),
                ("compiled:hostile", 1000 * s),
                ("missing-bounds-error-justified", 300 * s),
                ("deduplicated-row-name", 100 * s),
                ("rejected:EmptyAggregation", 50 * s),
                ("auxiliary-named-user-variable:compared-with-neutral-twin", 100 * s),
                ("division-twin-compared", 500 * s),
            ],
            min_nontrivial: 3000 * s,
        }
    }
}
