//! Exact view of a compiled `rooc::LinearModel`, and R-aux: "does an assignment of some
//! variables extend to the whole linear model?" decided with the certified exact MILP.
use crate::lp::*;
use crate::rat::*;
use num_traits::{Signed, Zero};
use rooc::{Comparison, LinearModel, OptimizationType, VariableType};

#[derive(Debug, Clone, Copy, PartialEq, Eq)]
pub enum Kind {
    Cont,
    Int,
    Bool,
}

#[derive(Debug, Clone)]
pub struct XVar {
    pub name: String,
    pub lo: Option<Q>,
    pub hi: Option<Q>,
    pub kind: Kind,
}

#[derive(Debug, Clone)]
pub struct XRow {
    pub name: String,
    pub a: Vec<Q>,
    pub rel: Rel,
    pub strict: bool,
    pub b: Q,
}

#[derive(Debug, Clone)]
pub struct XLin {
    pub vars: Vec<XVar>,
    pub rows: Vec<XRow>,
    pub c: Vec<Q>,
    pub c0: Q,
    pub sense: OptimizationType,
}

#[derive(Debug, Clone)]
pub enum XLinErr {
    NonFinite(String),
    Shape(String),
}

pub fn vt_bounds(t: &VariableType) -> (f64, f64, Kind) {
    match *t {
        VariableType::Boolean => (0.0, 1.0, Kind::Bool),
        VariableType::IntegerRange(a, b) => (a as f64, b as f64, Kind::Int),
        VariableType::Real(a, b) => (a, b, Kind::Cont),
        VariableType::NonNegativeReal(a, b) => (a, b, Kind::Cont),
    }
}

fn bound(f: f64, what: &str) -> Result<Option<Q>, XLinErr> {
    if f.is_nan() {
        return Err(XLinErr::NonFinite(format!("{what} is NaN")));
    }
    Ok(q(f))
}

impl XLin {
    pub fn from_rooc(lm: &LinearModel) -> Result<XLin, XLinErr> {
        let n = lm.variables().len();
        let mut vars = Vec::with_capacity(n);
        for name in lm.variables() {
            let dv = lm
                .domain()
                .get(name)
                .ok_or_else(|| XLinErr::Shape(format!("variable {name} has no domain")))?;
            let (lo, hi, kind) = vt_bounds(dv.get_type());
            if lo == f64::INFINITY || hi == f64::NEG_INFINITY {
                return Err(XLinErr::NonFinite(format!("bound of {name} is an inverted infinity")));
            }
            vars.push(XVar {
                name: name.clone(),
                lo: bound(lo, "lower bound")?,
                hi: bound(hi, "upper bound")?,
                kind,
            });
        }
        let conv = |v: &Vec<f64>, what: &str| -> Result<Vec<Q>, XLinErr> {
            if v.len() != n {
                return Err(XLinErr::Shape(format!("{what} has {} coefficients for {n} variables", v.len())));
            }
            v.iter()
                .map(|f| q(*f).ok_or_else(|| XLinErr::NonFinite(format!("{what} coefficient {f}"))))
                .collect()
        };
        let mut rows = vec![];
        for (i, r) in lm.constraints().iter().enumerate() {
            let (rel, strict) = match r.constraint_type() {
                Comparison::LessOrEqual => (Rel::Le, false),
                Comparison::GreaterOrEqual => (Rel::Ge, false),
                Comparison::Equal => (Rel::Eq, false),
                Comparison::Less => (Rel::Le, true),
                Comparison::Greater => (Rel::Ge, true),
            };
            rows.push(XRow {
                name: r.name(),
                a: conv(r.coefficients(), &format!("row {i}"))?,
                rel,
                strict,
                b: q(r.rhs()).ok_or_else(|| XLinErr::NonFinite(format!("row {i} rhs {}", r.rhs())))?,
            });
        }
        Ok(XLin {
            vars,
            rows,
            c: conv(lm.objective(), "objective")?,
            c0: q(lm.objective_offset())
                .ok_or_else(|| XLinErr::NonFinite(format!("offset {}", lm.objective_offset())))?,
            sense: lm.optimization_type().clone(),
        })
    }

    pub fn index_of(&self, name: &str) -> Option<usize> {
        self.vars.iter().position(|v| v.name == name)
    }

    pub fn to_lp(&self) -> Lp {
        Lp {
            vars: self
                .vars
                .iter()
                .map(|v| LpVar {
                    lo: v.lo.clone(),
                    hi: v.hi.clone(),
                    int: v.kind != Kind::Cont,
                })
                .collect(),
            rows: self
                .rows
                .iter()
                .map(|r| LpRow {
                    a: r.a.clone(),
                    rel: r.rel,
                    b: r.b.clone(),
                })
                .collect(),
            c: if self.sense == OptimizationType::Satisfy {
                vec![zero(); self.vars.len()]
            } else {
                self.c.clone()
            },
            c0: self.c0.clone(),
            maximize: self.sense == OptimizationType::Max,
        }
    }

    pub fn objective_at(&self, x: &[Q]) -> Q {
        let mut v = self.c0.clone();
        for (c, xi) in self.c.iter().zip(x) {
            if !c.is_zero() {
                v += c * xi;
            }
        }
        v
    }

    /// Largest violation of any row / bound / integrality at `x`, scaled as in the property
    /// statements: row violation divided by max(1, |rhs|, max|a_j x_j|).
    pub fn max_violation(&self, x: &[Q]) -> (Q, String) {
        let mut worst = zero();
        let mut what = String::new();
        let mut upd = |v: Q, w: String| {
            if v > worst {
                worst = v;
                what = w;
            }
        };
        for (j, v) in self.vars.iter().enumerate() {
            if let Some(lo) = &v.lo {
                if x[j] < *lo {
                    upd(lo - &x[j], format!("{} below lower bound {}", v.name, show(lo)));
                }
            }
            if let Some(hi) = &v.hi {
                if x[j] > *hi {
                    upd(&x[j] - hi, format!("{} above upper bound {}", v.name, show(hi)));
                }
            }
            if v.kind != Kind::Cont {
                let r = x[j].round();
                let d = (&x[j] - r).abs();
                if !d.is_zero() {
                    upd(d, format!("{} not integral", v.name));
                }
            }
        }
        for (i, r) in self.rows.iter().enumerate() {
            let mut act = zero();
            let mut scale = qmax(&one(), &r.b.abs());
            for (a, xi) in r.a.iter().zip(x) {
                if !a.is_zero() {
                    let t = a * xi;
                    scale = qmax(&scale, &t.abs());
                    act += t;
                }
            }
            let viol = match r.rel {
                Rel::Le => &act - &r.b,
                Rel::Ge => &r.b - &act,
                Rel::Eq => (&act - &r.b).abs(),
            };
            if viol.is_positive() {
                upd(viol / scale, format!("row {i} '{}' violated", r.name));
            }
        }
        (worst, what)
    }
}

#[derive(Debug, Clone)]
pub enum Ext {
    /// best objective over all extensions (in the model's direction), and one extension
    Yes { best: Q, full: Vec<Q> },
    No(String),
    /// extendable, and the objective is unbounded over the auxiliary extensions
    Unbounded,
}

/// R-aux. `fixed[j] = Some(v)` pins variable j. `eps` relaxes rows and bounds
/// (scaled by max(1, |rhs|, |fixed part|)); integrality is never relaxed.
/// When `optimize` is false only feasibility is decided.
pub fn extend(
    xl: &XLin,
    fixed: &[Option<Q>],
    eps: &Q,
    optimize: bool,
    node_limit: usize,
) -> Result<Ext, OracleFail> {
    let n = xl.vars.len();
    // fixed values must respect the published domains
    for j in 0..n {
        if let Some(v) = &fixed[j] {
            let var = &xl.vars[j];
            if let Some(lo) = &var.lo {
                if v + eps * qmax(&one(), &lo.abs()) < *lo {
                    return Ok(Ext::No(format!("{} = {} below published lower bound {}", var.name, show(v), show(lo))));
                }
            }
            if let Some(hi) = &var.hi {
                if *v > hi + eps * qmax(&one(), &hi.abs()) {
                    return Ok(Ext::No(format!("{} = {} above published upper bound {}", var.name, show(v), show(hi))));
                }
            }
            if var.kind != Kind::Cont && !v.is_integer() {
                return Ok(Ext::No(format!("{} = {} not integral", var.name, show(v))));
            }
        }
    }
    let free: Vec<usize> = (0..n).filter(|j| fixed[*j].is_none()).collect();
    let mut rows = vec![];
    for (i, r) in xl.rows.iter().enumerate() {
        let mut constant = zero();
        let mut scale = qmax(&one(), &r.b.abs());
        for j in 0..n {
            if let Some(v) = &fixed[j] {
                if !r.a[j].is_zero() {
                    let t = &r.a[j] * v;
                    scale = qmax(&scale, &t.abs());
                    constant += t;
                }
            }
        }
        let a: Vec<Q> = free.iter().map(|&j| r.a[j].clone()).collect();
        let b = &r.b - &constant;
        let slack = eps * &scale;
        if a.iter().all(|v| v.is_zero()) {
            let ok = match r.rel {
                Rel::Le => zero() <= &b + &slack,
                Rel::Ge => &zero() + &slack >= b,
                Rel::Eq => b.abs() <= slack,
            };
            if !ok {
                return Ok(Ext::No(format!("row {i} '{}' violated by the fixed part", r.name)));
            }
            continue;
        }
        match r.rel {
            Rel::Le => rows.push(LpRow { a, rel: Rel::Le, b: b + slack }),
            Rel::Ge => rows.push(LpRow { a, rel: Rel::Ge, b: b - slack }),
            Rel::Eq => {
                if slack.is_zero() {
                    rows.push(LpRow { a, rel: Rel::Eq, b });
                } else {
                    rows.push(LpRow { a: a.clone(), rel: Rel::Le, b: &b + &slack });
                    rows.push(LpRow { a, rel: Rel::Ge, b: b - slack });
                }
            }
        }
    }
    let mut c0 = xl.c0.clone();
    for j in 0..n {
        if let Some(v) = &fixed[j] {
            if !xl.c[j].is_zero() {
                c0 += &xl.c[j] * v;
            }
        }
    }
    let use_obj = optimize && xl.sense != OptimizationType::Satisfy;
    let lp = Lp {
        vars: free
            .iter()
            .map(|&j| {
                let v = &xl.vars[j];
                let widen = |b: &Option<Q>, up: bool| -> Option<Q> {
                    b.as_ref().map(|b| {
                        if v.kind != Kind::Cont || eps.is_zero() {
                            b.clone()
                        } else if up {
                            b + eps * qmax(&one(), &b.abs())
                        } else {
                            b - eps * qmax(&one(), &b.abs())
                        }
                    })
                };
                LpVar {
                    lo: widen(&v.lo, false),
                    hi: widen(&v.hi, true),
                    int: v.kind != Kind::Cont,
                }
            })
            .collect(),
        rows,
        c: if use_obj {
            free.iter().map(|&j| xl.c[j].clone()).collect()
        } else {
            vec![zero(); free.len()]
        },
        c0,
        maximize: xl.sense == OptimizationType::Max,
    };
    let (ans, _) = solve_milp(&lp, node_limit)?;
    Ok(match ans {
        LpAnswer::Infeasible => Ext::No("no auxiliary extension exists".into()),
        LpAnswer::Unbounded { .. } => Ext::Unbounded,
        LpAnswer::Optimal { x, value } => {
            let mut full = vec![zero(); n];
            for j in 0..n {
                if let Some(v) = &fixed[j] {
                    full[j] = v.clone();
                }
            }
            for (k, &j) in free.iter().enumerate() {
                full[j] = x[k].clone();
            }
            Ext::Yes { best: value, full }
        }
    })
}
