//! G-lp: linear / mixed-integer linear models built through rooc's public `LinearModel` API.
use rand::Rng;
use rand::seq::SliceRandom;
use rand_chacha::ChaCha8Rng;
use rooc::{Comparison, LinearModel, OptimizationType, VariableType};
use serde::{Deserialize, Serialize};

#[derive(Debug, Clone, Serialize, Deserialize, PartialEq)]
pub enum VSpec {
    Bool,
    Int(i32, i32),
    Real(Option<f64>, Option<f64>),
    NonNeg(f64, Option<f64>),
}

#[derive(Debug, Clone, Serialize, Deserialize)]
pub struct RowSpec {
    pub name: String,
    pub a: Vec<f64>,
    pub rel: String, // "<=", ">=", "="
    pub b: f64,
}

#[derive(Debug, Clone, Serialize, Deserialize)]
pub struct LmSpec {
    pub vars: Vec<(String, VSpec)>,
    pub rows: Vec<RowSpec>,
    pub obj: Vec<f64>,
    pub offset: f64,
    pub sense: String, // "min" | "max" | "satisfy"
}

impl VSpec {
    pub fn to_rooc(&self) -> VariableType {
        match self {
            VSpec::Bool => VariableType::Boolean,
            VSpec::Int(a, b) => VariableType::IntegerRange(*a, *b),
            VSpec::Real(lo, hi) => {
                VariableType::Real(lo.unwrap_or(f64::NEG_INFINITY), hi.unwrap_or(f64::INFINITY))
            }
            VSpec::NonNeg(lo, hi) => VariableType::NonNegativeReal(*lo, hi.unwrap_or(f64::INFINITY)),
        }
    }
    pub fn is_continuous(&self) -> bool {
        matches!(self, VSpec::Real(..) | VSpec::NonNeg(..))
    }
}

impl LmSpec {
    pub fn to_rooc(&self) -> LinearModel {
        let mut m = LinearModel::new();
        for (n, t) in &self.vars {
            m.add_variable(n, t.to_rooc());
        }
        let sense = match self.sense.as_str() {
            "min" => OptimizationType::Min,
            "max" => OptimizationType::Max,
            _ => OptimizationType::Satisfy,
        };
        // the offset can only be set through new_from_parts
        for r in &self.rows {
            let rel = match r.rel.as_str() {
                "<=" => Comparison::LessOrEqual,
                ">=" => Comparison::GreaterOrEqual,
                "<" => Comparison::Less,
                ">" => Comparison::Greater,
                _ => Comparison::Equal,
            };
            m.add_named_constraint(r.a.clone(), rel, r.b, &r.name);
        }
        m.set_objective(self.obj.clone(), sense);
        if self.offset != 0.0 {
            let (obj, sense, _, rows, vars, dom) = m.into_parts();
            m = LinearModel::new_from_parts(obj, sense, self.offset, rows, vars, dom);
        }
        m
    }
    /// The same model with the domain map in a different insertion order than the column list - what
    /// the Linearizer produces (sorted columns, declaration-order domain).
    pub fn to_rooc_domain_shuffled(&self, rng: &mut ChaCha8Rng) -> LinearModel {
        let (obj, sense, offset, rows, vars, domain) = self.to_rooc().into_parts();
        let mut keys: Vec<String> = domain.keys().cloned().collect();
        keys.shuffle(rng);
        let mut shuffled = indexmap::IndexMap::new();
        for k in keys {
            shuffled.insert(k.clone(), domain[&k].clone());
        }
        LinearModel::new_from_parts(obj, sense, offset, rows, vars, shuffled)
    }
    pub fn from_rooc(lm: &LinearModel) -> LmSpec {
        let inf = |f: f64| if f.is_finite() { Some(f) } else { None };
        LmSpec {
            vars: lm
                .variables()
                .iter()
                .map(|n| {
                    let t = match *lm.domain().get(n).unwrap().get_type() {
                        VariableType::Boolean => VSpec::Bool,
                        VariableType::IntegerRange(a, b) => VSpec::Int(a, b),
                        VariableType::Real(a, b) => VSpec::Real(inf(a), inf(b)),
                        VariableType::NonNegativeReal(a, b) => VSpec::NonNeg(a, inf(b)),
                    };
                    (n.clone(), t)
                })
                .collect(),
            rows: lm
                .constraints()
                .iter()
                .map(|r| RowSpec {
                    name: r.name(),
                    a: r.coefficients().clone(),
                    rel: r.constraint_type().to_string(),
                    b: r.rhs(),
                })
                .collect(),
            obj: lm.objective().clone(),
            offset: lm.objective_offset(),
            sense: match lm.optimization_type() {
                OptimizationType::Min => "min",
                OptimizationType::Max => "max",
                OptimizationType::Satisfy => "satisfy",
            }
            .to_string(),
        }
    }
    /// "wide" when the non-zero matrix / objective coefficients span a factor >= 50 or the smallest
    /// of them is <= 0.05: the structural precondition of the tableau simplex's known tolerance
    /// problem (its comparisons use an absolute 1e-5).
    pub fn coefficient_range(&self) -> &'static str {
        let mut lo = f64::INFINITY;
        let mut hi: f64 = 0.0;
        for v in self.rows.iter().flat_map(|r| r.a.iter()).chain(self.obj.iter()) {
            let a = v.abs();
            if a > 0.0 {
                lo = lo.min(a);
                hi = hi.max(a);
            }
        }
        if hi > 0.0 && (hi / lo >= 50.0 || lo <= 0.05) { "wide" } else { "plain" }
    }
    pub fn all_continuous(&self) -> bool {
        self.vars.iter().all(|(_, t)| t.is_continuous())
    }
    pub fn shape_hash(&self) -> u64 {
        crate::runner::hash_str(&serde_json::to_string(self).unwrap())
    }
}

#[derive(Debug, Clone, Copy)]
pub struct LpGenOpts {
    pub max_vars: usize,
    pub max_rows: usize,
    pub continuous_only: bool,
    pub allow_satisfy: bool,
    pub named_rows: bool,
    pub wide_coeffs: bool,
    pub moderate_coeffs: bool,
}

impl Default for LpGenOpts {
    fn default() -> Self {
        LpGenOpts {
            max_vars: 5,
            max_rows: 5,
            continuous_only: false,
            allow_satisfy: true,
            named_rows: true,
            wide_coeffs: false,
            moderate_coeffs: false,
        }
    }
}

fn coef(rng: &mut ChaCha8Rng, wide: bool, moderate: bool) -> f64 {
    let pool: [f64; 15] = [
        0.0, 0.0, 0.0, 1.0, 1.0, -1.0, 2.0, -2.0, 3.0, -3.0, 0.5, -0.5, 1.5, 4.0, -5.0,
    ];
    if wide && rng.gen_bool(0.25) {
        let wide_pool: [f64; 12] = [
            1e-9, -1e-9, 1e-6, -1e-6, 3e-7, 0.1, -0.3, 1e9, -1e9, 123456.789, -7e5, 1.0 / 3.0,
        ];
        *wide_pool.choose(rng).unwrap()
    } else if moderate && rng.gen_bool(0.2) {
        let pool2: [f64; 10] = [0.1, -0.3, 1.0 / 3.0, 0.01, -0.05, 12.0, -25.0, 100.0, 7.5, -0.125];
        *pool2.choose(rng).unwrap()
    } else {
        *pool.choose(rng).unwrap()
    }
}

fn var_type(rng: &mut ChaCha8Rng, continuous_only: bool) -> VSpec {
    let k = if continuous_only {
        rng.gen_range(2..8)
    } else {
        rng.gen_range(0..8)
    };
    match k {
        0 => VSpec::Bool,
        1 => {
            let lo = rng.gen_range(-3..3);
            VSpec::Int(lo, lo + rng.gen_range(0..5))
        }
        2 => VSpec::Real(None, None),
        3 => {
            let lo = rng.gen_range(-4..3) as f64;
            VSpec::Real(Some(lo), Some(lo + rng.gen_range(0..7) as f64 * 0.5))
        }
        4 => {
            if rng.gen_bool(0.5) {
                VSpec::Real(Some(rng.gen_range(-4..3) as f64), None)
            } else {
                VSpec::Real(None, Some(rng.gen_range(-3..5) as f64))
            }
        }
        5 => VSpec::NonNeg(0.0, None),
        6 => {
            // a half line that does not start at zero: NonNegativeReal(l) / NonNegativeReal(l, Infinity)
            if rng.gen_bool(0.35) {
                VSpec::NonNeg(rng.gen_range(1..8) as f64 * 0.5, None)
            } else {
                VSpec::NonNeg(0.0, None)
            }
        }
        _ => {
            let lo = rng.gen_range(0..3) as f64 * 0.5;
            VSpec::NonNeg(lo, Some(lo + rng.gen_range(0..6) as f64))
        }
    }
}

/// A point inside the variable domains, used to plant feasible / tight / violated rows.
fn plant_point(rng: &mut ChaCha8Rng, vars: &[(String, VSpec)]) -> Vec<f64> {
    vars.iter()
        .map(|(_, t)| match t {
            VSpec::Bool => rng.gen_range(0..2) as f64,
            VSpec::Int(a, b) => rng.gen_range(*a..=*b) as f64,
            VSpec::Real(lo, hi) => {
                let lo = lo.unwrap_or(-4.0);
                let hi = hi.unwrap_or(lo + 6.0).max(lo);
                lo + (rng.gen_range(0..=4) as f64) * (hi - lo) / 4.0
            }
            VSpec::NonNeg(lo, hi) => {
                let hi = hi.unwrap_or(lo + 5.0).max(*lo);
                lo + (rng.gen_range(0..=4) as f64) * (hi - lo) / 4.0
            }
        })
        .collect()
}

pub fn gen_lm(rng: &mut ChaCha8Rng, o: &LpGenOpts) -> LmSpec {
    // one model in forty has no variable at all: only constant rows (0 rel b)
    let n = if rng.gen_range(0..40) == 0 { 0 } else { rng.gen_range(1..=o.max_vars) };
    let m = rng.gen_range(0..=o.max_rows);
    let names_pool = ["x", "y", "z", "w", "u", "v", "t", "s"];
    let style = rng.gen_range(0..3);
    let vars: Vec<(String, VSpec)> = (0..n)
        .map(|i| {
            let name = match style {
                0 => names_pool[i].to_string(),
                1 => format!("x_{i}"),
                _ => format!("v{}", i + 1),
            };
            (name, var_type(rng, o.continuous_only))
        })
        .collect();
    let p = plant_point(rng, &vars);
    let mode = rng.gen_range(0..10); // 0..6 planted feasible, 7 random rhs, 8 contradiction, 9 degenerate
    let mut rows = vec![];
    for i in 0..m {
        let mut a: Vec<f64> = (0..n).map(|_| coef(rng, o.wide_coeffs, o.moderate_coeffs)).collect();
        if rng.gen_bool(0.08) {
            a = vec![0.0; n]; // empty row
        }
        if i > 0 && rng.gen_bool(0.08) {
            let prev: &RowSpec = &rows[rng.gen_range(0..rows.len())];
            a = prev.a.clone(); // duplicate / parallel row
        }
        let act: f64 = a.iter().zip(&p).map(|(a, x)| a * x).sum();
        let rel = ["<=", ">=", "="][rng.gen_range(0..3)];
        let slack = match rng.gen_range(0..4) {
            0 => 0.0,
            1 => 0.5,
            2 => 1.0,
            _ => 3.0,
        };
        let mut b = match (mode, rel) {
            (7, _) => rng.gen_range(-6..7) as f64,
            (_, "<=") => act + slack,
            (_, ">=") => act - slack,
            _ => act,
        };
        if mode == 8 && i == m - 1 {
            // violated by a margin at the planted point; may or may not make the model infeasible
            b = match rel {
                "<=" => act - 1.0 - slack,
                ">=" => act + 1.0 + slack,
                _ => act + 1.0,
            };
        }
        if mode == 9 {
            b = act; // every row tight at p: degenerate vertex
        }
        // keep rhs exactly representable and free of float noise
        let b = (b * 1024.0).round() / 1024.0;
        let name = if o.named_rows && rng.gen_bool(0.5) {
            match rng.gen_range(0..7) {
                0 => format!("c{}", i + 1),
                1 => format!("c{}", i + 2),
                // the generated name of any other row, earlier or later
                5 => format!("c{}", rng.gen_range(1..=m + 1)),
                2 => format!("row_{i}"),
                3 => format!("cap{i}"),
                _ => format!("r{i}"),
            }
        } else {
            String::new()
        };
        rows.push(RowSpec {
            name,
            a,
            rel: rel.to_string(),
            b,
        });
    }
    // unique names only (duplicate user names are not produced by the compiler)
    let mut seen = std::collections::HashSet::new();
    for r in rows.iter_mut() {
        if !r.name.is_empty() && !seen.insert(r.name.clone()) {
            r.name = String::new();
        }
    }
    let sense = match rng.gen_range(0..if o.allow_satisfy { 7 } else { 6 }) {
        0..=2 => "min",
        3..=5 => "max",
        _ => "satisfy",
    };
    let obj: Vec<f64> = if sense == "satisfy" {
        vec![0.0; n]
    } else {
        (0..n).map(|_| coef(rng, o.wide_coeffs, o.moderate_coeffs)).collect()
    };
    let offset = if sense != "satisfy" && rng.gen_bool(0.3) {
        [1.0, -2.5, 10.0, 0.25][rng.gen_range(0..4)]
    } else {
        0.0
    };
    LmSpec {
        vars,
        rows,
        obj,
        offset,
        sense: sense.to_string(),
    }
}
