//! Point sets for the declared variables (DESIGN 3.4): grids, bound endpoints +- delta,
//! far points in unbounded directions, random rationals and line-search breakpoints.
use crate::ast::*;
use crate::lin::XLin;
use crate::rat::*;
use num_traits::{Signed, Zero};
use rand::Rng;
use rand::seq::SliceRandom;
use rand_chacha::ChaCha8Rng;

fn deltas() -> Vec<Q> {
    vec![zero(), qf(1, 1024), qf(-1, 1024), qf(1, 7), qf(-1, 7)]
}

/// Candidate values per variable.
pub fn candidates(m: &M, xl: Option<&XLin>, rng: &mut ChaCha8Rng) -> Vec<Vec<Q>> {
    let mut out = vec![];
    for (i, t) in m.types.iter().enumerate() {
        let mut c: Vec<Q> = vec![];
        let (lo, hi) = t.bounds();
        match t {
            VT::Bool => {
                c.extend([qi(0), qi(1), qi(-1), qi(2), qf(1, 2)]);
            }
            VT::Int(a, b_) => {
                for v in *a..=(*b_).min(*a + 6) {
                    c.push(qi(v as i64));
                }
                c.push(qi(*b_ as i64));
                c.push(qi(*a as i64 - 1));
                c.push(qi(*b_ as i64 + 1));
                c.push(qi(*a as i64) + qf(1, 2));
                // the ends of the range the compiler published, and their neighbours
                if let Some(xl) = xl {
                    if let Some(j) = xl.index_of(&m.names[i]) {
                        for e in [&xl.vars[j].lo, &xl.vars[j].hi].into_iter().flatten() {
                            let f = e.floor();
                            for d in -1..=1 {
                                c.push(&f + qi(d));
                            }
                        }
                    }
                }
            }
            _ => {
                let mut anchors: Vec<Q> = vec![];
                if let Some(l) = q(lo) {
                    anchors.push(l);
                }
                if let Some(h) = q(hi) {
                    anchors.push(h);
                }
                if let Some(xl) = xl {
                    if let Some(j) = xl.index_of(&m.names[i]) {
                        if let Some(l) = &xl.vars[j].lo {
                            anchors.push(l.clone());
                        }
                        if let Some(h) = &xl.vars[j].hi {
                            anchors.push(h.clone());
                        }
                    }
                }
                for a in &anchors {
                    for d in deltas() {
                        c.push(a + d);
                    }
                }
                for k in -6..=6 {
                    c.push(qf(k, 2));
                }
                if !lo.is_finite() {
                    c.push(qi(-10_000_000));
                    c.push(qi(-37));
                }
                if !hi.is_finite() {
                    c.push(qi(10_000_000));
                    c.push(qi(41));
                }
                for _ in 0..4 {
                    let d = rng.gen_range(1..=16);
                    c.push(qf(rng.gen_range(-5 * d..=5 * d), d));
                }
            }
        }
        c.sort();
        c.dedup();
        out.push(c);
    }
    out
}

fn value_along(e_l: &E, e_r: &E, p: &mut Vec<Q>, i: usize, t: &Q) -> Option<Q> {
    let old = std::mem::replace(&mut p[i], t.clone());
    let v = match (e_l.eval(p), e_r.eval(p)) {
        (Ok(a), Ok(b_)) => Some(a - b_),
        _ => None,
    };
    p[i] = old;
    v
}

/// Roots of lhs - rhs along coordinate i through p, found between the candidate values.
fn line_roots(l: &E, r: &E, p: &[Q], i: usize, cands: &[Q]) -> Vec<Q> {
    let mut p = p.to_vec();
    let mut roots = vec![];
    let vals: Vec<Option<Q>> = cands.iter().map(|t| value_along(l, r, &mut p, i, t)).collect();
    for k in 0..cands.len().saturating_sub(1) {
        let (Some(fa), Some(fb)) = (&vals[k], &vals[k + 1]) else { continue };
        if fa.is_zero() || fb.is_zero() || (fa.is_positive() == fb.is_positive()) {
            continue;
        }
        let (mut a, mut b_) = (cands[k].clone(), cands[k + 1].clone());
        let (mut fa, mut fb) = (fa.clone(), fb.clone());
        for _ in 0..10 {
            let mid = (&a + &b_) / qi(2);
            let Some(fm) = value_along(l, r, &mut p, i, &mid) else { break };
            if fm.is_zero() {
                a = mid.clone();
                b_ = mid;
                fa = zero();
                fb = zero();
                break;
            }
            if fm.is_positive() == fa.is_positive() {
                a = mid;
                fa = fm;
            } else {
                b_ = mid;
                fb = fm;
            }
        }
        if fa.is_zero() {
            roots.push(a);
        } else {
            // piecewise linear: one interpolation step is exact inside a single piece
            let t = &a - &fa * (&b_ - &a) / (&fb - &fa);
            roots.push(t);
        }
    }
    roots
}

/// The point set: discrete grid x sampled continuous candidates, plus line-search points.
pub fn point_set(m: &M, xl: Option<&XLin>, rng: &mut ChaCha8Rng, max_points: usize) -> Vec<Vec<Q>> {
    let cands = candidates(m, xl, rng);
    let n = m.n();
    let mut pts: Vec<Vec<Q>> = vec![];
    if n == 0 {
        return vec![vec![]];
    }
    // in-domain core values per variable (used as the base of sweeps)
    let core: Vec<Vec<Q>> = (0..n)
        .map(|i| {
            let v: Vec<Q> = cands[i].iter().filter(|v| m.types[i].contains(v)).cloned().collect();
            if v.is_empty() { cands[i].clone() } else { v }
        })
        .collect();
    // full product of the discrete in-domain values when small, continuous ones sampled
    let disc: Vec<usize> = (0..n).filter(|i| m.types[*i].is_discrete()).collect();
    let disc_size: usize = disc.iter().map(|i| core[*i].len()).product();
    let base_samples = (max_points / 3).max(8);
    if disc_size <= base_samples.max(1) && !disc.is_empty() {
        let mut idx = vec![0usize; disc.len()];
        loop {
            let reps = (base_samples / disc_size.max(1)).clamp(1, 4);
            for _ in 0..reps {
                let mut p: Vec<Q> = (0..n).map(|i| core[i].choose(rng).unwrap().clone()).collect();
                for (k, &i) in disc.iter().enumerate() {
                    p[i] = core[i][idx[k]].clone();
                }
                pts.push(p);
            }
            let mut k = 0;
            loop {
                if k == disc.len() {
                    break;
                }
                idx[k] += 1;
                if idx[k] < core[disc[k]].len() {
                    break;
                }
                idx[k] = 0;
                k += 1;
            }
            if k == disc.len() {
                break;
            }
        }
    } else {
        for _ in 0..base_samples {
            pts.push((0..n).map(|i| core[i].choose(rng).unwrap().clone()).collect());
        }
    }
    // one-coordinate sweeps over *all* candidates (incl. out-of-domain ones) from random bases
    let sweeps = (max_points / 3).max(8);
    let mut made = 0;
    'outer: for _ in 0..4 {
        let base: Vec<Q> = (0..n).map(|i| core[i].choose(rng).unwrap().clone()).collect();
        for i in 0..n {
            for v in &cands[i] {
                let mut p = base.clone();
                p[i] = v.clone();
                pts.push(p);
                made += 1;
                if made >= sweeps {
                    break 'outer;
                }
            }
        }
    }
    // line search: breakpoints of every comparison along every continuous coordinate
    let cont: Vec<usize> = (0..n).filter(|i| !m.types[*i].is_discrete()).collect();
    let budget = max_points / 3;
    let mut ls = 0;
    if !cont.is_empty() {
        let mut exprs: Vec<(&E, E)> = vec![];
        for c in &m.cons {
            if let CKind::Cmp(l, _, r) = &c.kind {
                exprs.push((l, r.clone()));
            }
        }
        'ls: for _round in 0..3 {
            let base: Vec<Q> = (0..n).map(|i| core[i].choose(rng).unwrap().clone()).collect();
            for (l, r) in &exprs {
                for &i in &cont {
                    for root in line_roots(l, r, &base, i, &cands[i]) {
                        for d in [zero(), qf(1, 1024), qf(-1, 1024)] {
                            let mut p = base.clone();
                            p[i] = &root + d;
                            pts.push(p);
                            ls += 1;
                        }
                        if ls >= budget {
                            break 'ls;
                        }
                    }
                }
            }
        }
    }
    pts.sort();
    pts.dedup();
    if pts.len() > max_points {
        pts.shuffle(rng);
        pts.truncate(max_points);
    }
    pts
}
