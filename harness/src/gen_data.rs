//! G-data and R-unroll: data-driven ROOC programs in a small harness DSL, printed once with the
//! language's iteration / aggregation constructs (P) and once unrolled by hand in iteration order
//! (U) by the harness's own tiny implementations of ranges, enumerate, zip, len, set functions,
//! graph iterators, tuple destructuring and name flattening.
use rand::Rng;
use rand::seq::SliceRandom;
use rand_chacha::ChaCha8Rng;
use std::collections::BTreeMap;

#[derive(Debug, Clone, PartialEq)]
pub enum V {
    Int(i64),
    Num(f64),
    Str(String),
    Arr(Vec<V>),
    Tuple(Vec<V>),
}

impl V {
    pub fn num(&self) -> Option<f64> {
        match self {
            V::Int(i) => Some(*i as f64),
            V::Num(f) => Some(*f),
            _ => None,
        }
    }
    /// fragment of a flattened variable name
    pub fn name_fragment(&self) -> Option<String> {
        match self {
            V::Int(i) => Some(i.to_string()),
            V::Num(f) => Some(f.to_string()),
            V::Str(s) => Some(s.clone()),
            _ => None,
        }
    }
    /// literal as it is written in a `where` section
    pub fn literal(&self) -> String {
        match self {
            V::Int(i) => i.to_string(),
            V::Num(f) => crate::text::num_text(*f),
            V::Str(s) => format!("\"{s}\""),
            V::Arr(xs) | V::Tuple(xs) => format!("[{}]", xs.iter().map(|x| x.literal()).collect::<Vec<_>>().join(", ")),
        }
    }
}

#[derive(Debug, Clone)]
pub struct GraphData {
    pub nodes: Vec<(String, Vec<(String, Option<f64>)>)>,
}

impl GraphData {
    pub fn literal(&self) -> String {
        let nodes: Vec<String> = self
            .nodes
            .iter()
            .map(|(n, es)| {
                if es.is_empty() {
                    n.clone()
                } else {
                    format!(
                        "{n} -> [{}]",
                        es.iter()
                            .map(|(t, w)| match w {
                                Some(w) => format!("{t}: {}", if *w < 0.0 { format!("-{}", crate::text::num_text(*w)) } else { crate::text::num_text(*w) }),
                                None => t.clone(),
                            })
                            .collect::<Vec<_>>()
                            .join(", ")
                    )
                }
            })
            .collect();
        format!("Graph {{\n        {}\n    }}", nodes.join(",\n        "))
    }
    fn edges_of(&self, node: &str) -> Vec<V> {
        self.nodes
            .iter()
            .find(|(n, _)| n == node)
            .map(|(n, es)| es.iter().map(|(t, w)| V::Tuple(vec![V::Str(n.clone()), V::Str(t.clone()), V::Num(w.unwrap_or(1.0))])).collect())
            .unwrap_or_default()
    }
}

/// compile-time expression
#[derive(Debug, Clone)]
pub enum IExp {
    Lit(i64),
    Var(String),
    Len(String),
    At(String, Vec<IExp>),
    Add(Box<IExp>, Box<IExp>),
    Sub(Box<IExp>, Box<IExp>),
    Mul(Box<IExp>, Box<IExp>),
}

#[derive(Debug, Clone)]
pub enum Iter {
    Range(IExp, IExp, bool),
    Name(String), // a named array constant or a bound variable holding an array
    Enumerate(Box<Iter>),
    Zip(Box<Iter>, Box<Iter>),
    SetOp(&'static str, String, String),
    Nodes(String),
    Edges(String),
    NeighEdges(String),
    NeighEdgesOf(String, String),
}

#[derive(Debug, Clone)]
pub enum Pat {
    One(String),
    Tuple(Vec<Option<String>>),
}

#[derive(Debug, Clone)]
pub struct Bind {
    pub pat: Pat,
    pub iter: Iter,
}

#[derive(Debug, Clone, Copy, PartialEq, Eq)]
pub enum Agg {
    Sum,
    Prod,
    Avg,
    Min,
    Max,
    All,
    Any,
    Xor,
}

impl Agg {
    pub fn name(self) -> &'static str {
        match self {
            Agg::Sum => "sum",
            Agg::Prod => "prod",
            Agg::Avg => "avg",
            Agg::Min => "min",
            Agg::Max => "max",
            Agg::All => "all",
            Agg::Any => "any",
            Agg::Xor => "xor",
        }
    }
    /// The keyword or its long alias (conjunction / disjunction / exclusive_disjunction), chosen by a salt
    /// so that both spellings occur in the block form and in the scoped form without a random source.
    pub fn spelled(self, salt: usize) -> &'static str {
        match (self, salt % 3) {
            (Agg::All, 0) => "conjunction",
            (Agg::Any, 0) => "disjunction",
            (Agg::Xor, 0) => "exclusive_disjunction",
            _ => self.name(),
        }
    }
    pub fn is_logic(self) -> bool {
        matches!(self, Agg::All | Agg::Any | Agg::Xor)
    }
}

/// model expression of the DSL
#[derive(Debug, Clone)]
pub enum DE {
    Num(f64),
    Const(IExp),
    Var(String, Vec<IExp>), // base name + compile-time indexes ("x", [i, j]) -> x_i_j ; no index -> plain x
    Add(Box<DE>, Box<DE>),
    Sub(Box<DE>, Box<DE>),
    Mul(Box<DE>, Box<DE>),
    Neg(Box<DE>),
    Abs(Box<DE>),
    Scoped(Agg, Vec<Bind>, Box<DE>),
    Block(Agg, Vec<DE>),
    Not(Box<DE>),
    Implies(Box<DE>, Box<DE>),
}

#[derive(Debug, Clone)]
pub struct DCon {
    pub name: Option<(String, Vec<IExp>)>,
    pub lhs: DE,
    pub rel: &'static str, // "<=", ">=", "=", "" for a bare logic assertion
    pub rhs: DE,
    pub binds: Vec<Bind>,
}

#[derive(Debug, Clone)]
pub struct DDecl {
    pub base: String,
    pub idx: Vec<IExp>,
    pub ty: String,
    pub binds: Vec<Bind>,
}

#[derive(Debug, Clone)]
pub struct Prog {
    pub sense: &'static str, // "min" | "max" | "solve"
    pub obj: DE,
    pub cons: Vec<DCon>,
    pub consts: Vec<(String, V)>,
    /// constants written as an expression instead of a literal (e.g. `range(-2, 3, false)`); the value is in `consts`
    pub const_text: Vec<(String, String)>,
    pub graphs: Vec<(String, GraphData)>,
    pub decls: Vec<DDecl>,
}

pub type Env = BTreeMap<String, V>;

#[derive(Debug, Clone, PartialEq)]
pub enum UnrollErr {
    /// the reference cannot decide this program (outside the DSL's defined behaviour)
    Undefined(String),
}

fn und<T>(s: &str) -> Result<T, UnrollErr> {
    Err(UnrollErr::Undefined(s.to_string()))
}

impl Prog {
    fn global_env(&self) -> Env {
        self.consts.iter().cloned().collect()
    }
    fn graph(&self, name: &str) -> Option<&GraphData> {
        self.graphs.iter().find(|(n, _)| n == name).map(|(_, g)| g)
    }

    pub fn ieval(&self, e: &IExp, env: &Env) -> Result<V, UnrollErr> {
        Ok(match e {
            IExp::Lit(i) => V::Int(*i),
            IExp::Var(n) => env.get(n).cloned().ok_or_else(|| UnrollErr::Undefined(format!("unbound {n}")))?,
            IExp::Len(n) => match env.get(n) {
                Some(V::Arr(xs)) => V::Int(xs.len() as i64),
                _ => return und("len of a non-array"),
            },
            IExp::At(n, idx) => {
                let mut cur = env.get(n).cloned().ok_or_else(|| UnrollErr::Undefined(format!("unbound {n}")))?;
                for i in idx {
                    let k = match self.ieval(i, env)? {
                        V::Int(k) if k >= 0 => k as usize,
                        _ => return und("index is not a non-negative integer"),
                    };
                    cur = match cur {
                        V::Arr(xs) => xs.get(k).cloned().ok_or_else(|| UnrollErr::Undefined("index out of range".into()))?,
                        _ => return und("indexing a non-array"),
                    };
                }
                cur
            }
            IExp::Add(a, b) | IExp::Sub(a, b) | IExp::Mul(a, b) => {
                let (x, y) = (self.ieval(a, env)?, self.ieval(b, env)?);
                match (x, y) {
                    (V::Int(x), V::Int(y)) => V::Int(match e {
                        IExp::Add(..) => x + y,
                        IExp::Sub(..) => x - y,
                        _ => x * y,
                    }),
                    (x, y) => match (x.num(), y.num()) {
                        (Some(x), Some(y)) => V::Num(match e {
                            IExp::Add(..) => x + y,
                            IExp::Sub(..) => x - y,
                            _ => x * y,
                        }),
                        _ => return und("arithmetic on non-numbers"),
                    },
                }
            }
        })
    }

    pub fn iter_values(&self, it: &Iter, env: &Env) -> Result<Vec<V>, UnrollErr> {
        Ok(match it {
            Iter::Range(lo, hi, incl) => {
                let (V::Int(lo), V::Int(hi)) = (self.ieval(lo, env)?, self.ieval(hi, env)?) else { return und("range bound is not an integer") };
                let hi = if *incl { hi + 1 } else { hi };
                (lo..hi).map(V::Int).collect()
            }
            Iter::Name(n) => match env.get(n) {
                Some(V::Arr(xs)) => xs.clone(),
                _ => return und("iterating a non-array"),
            },
            Iter::Enumerate(inner) => self.iter_values(inner, env)?.into_iter().enumerate().map(|(i, v)| V::Tuple(vec![v, V::Int(i as i64)])).collect(),
            Iter::Zip(a, b) => {
                let (xa, xb) = (self.iter_values(a, env)?, self.iter_values(b, env)?);
                xa.into_iter().zip(xb).map(|(x, y)| V::Tuple(vec![x, y])).collect()
            }
            Iter::SetOp(op, a, b) => {
                let (Some(V::Arr(xa)), Some(V::Arr(xb))) = (env.get(a), env.get(b)) else { return und("set function on non-arrays") };
                let mut out: Vec<V> = vec![];
                // numbers are set elements by value, whatever kind they are stored as
                trait NumEq {
                    fn contains(&self, v: &V) -> bool;
                }
                impl NumEq for Vec<V> {
                    fn contains(&self, v: &V) -> bool {
                        self.iter().any(|w| match (w.num(), v.num()) {
                            (Some(a), Some(b)) => a == b,
                            _ => w == v,
                        })
                    }
                }
                let xb = xb.clone();
                let xa = xa.clone();
                match *op {
                    "union" => {
                        for v in xa.iter().chain(xb.iter()) {
                            if !NumEq::contains(&out, v) {
                                out.push(v.clone());
                            }
                        }
                    }
                    "intersection" => {
                        for v in &xa {
                            if NumEq::contains(&xb, v) && !NumEq::contains(&out, v) {
                                out.push(v.clone());
                            }
                        }
                    }
                    _ => {
                        for v in &xa {
                            if !NumEq::contains(&xb, v) && !NumEq::contains(&out, v) {
                                out.push(v.clone());
                            }
                        }
                    }
                }
                out
            }
            Iter::Nodes(g) => self.graph(g).ok_or_else(|| UnrollErr::Undefined("no such graph".into()))?.nodes.iter().map(|(n, _)| V::Str(n.clone())).collect(),
            Iter::Edges(g) => {
                let g = self.graph(g).ok_or_else(|| UnrollErr::Undefined("no such graph".into()))?;
                g.nodes.iter().flat_map(|(n, _)| g.edges_of(n)).collect()
            }
            Iter::NeighEdges(var) => {
                let Some(V::Str(node)) = env.get(var) else { return und("neigh_edges of a non-node") };
                // the node value carries its own edges: find it in any graph
                let g = self.graphs.iter().find(|(_, g)| g.nodes.iter().any(|(n, _)| n == node));
                match g {
                    Some((_, g)) => g.edges_of(node),
                    None => return und("node not found"),
                }
            }
            Iter::NeighEdgesOf(var, g) => {
                let Some(V::Str(node)) = env.get(var) else { return und("neigh_edges_of a non-string") };
                let g = self.graph(g).ok_or_else(|| UnrollErr::Undefined("no such graph".into()))?;
                if !g.nodes.iter().any(|(n, _)| n == node) {
                    return und("node not in graph");
                }
                g.edges_of(node)
            }
        })
    }

    /// every environment produced by a list of bindings, in iteration order (first binding outermost)
    pub fn envs(&self, binds: &[Bind], env: &Env) -> Result<Vec<Env>, UnrollErr> {
        if binds.is_empty() {
            return Ok(vec![env.clone()]);
        }
        let mut out = vec![];
        for v in self.iter_values(&binds[0].iter, env)? {
            let mut e = env.clone();
            match &binds[0].pat {
                Pat::One(n) => {
                    e.insert(n.clone(), v);
                }
                Pat::Tuple(names) => {
                    let parts = match v {
                        V::Tuple(xs) | V::Arr(xs) => xs,
                        _ => return und("destructuring a scalar"),
                    };
                    if names.len() > parts.len() {
                        return und("tuple pattern longer than the value");
                    }
                    for (n, p) in names.iter().zip(parts) {
                        if let Some(n) = n {
                            e.insert(n.clone(), p);
                        }
                    }
                }
            }
            out.extend(self.envs(&binds[1..], &e)?);
        }
        Ok(out)
    }

    fn flat_name(&self, base: &str, idx: &[IExp], env: &Env) -> Result<String, UnrollErr> {
        let mut s = base.to_string();
        for i in idx {
            let v = self.ieval(i, env)?;
            s.push('_');
            let frag = v.name_fragment().ok_or_else(|| UnrollErr::Undefined("index cannot be part of a name".into()))?;
            match v {
                // a decimal or negative index can only be written as a braced expression
                V::Num(_) => s.push_str(&format!("{{{frag}}}")),
                V::Int(k) if k < 0 => s.push_str(&format!("{{{frag}}}")),
                _ => s.push_str(&frag),
            }
        }
        Ok(s)
    }

    /// unrolled text of an expression under an environment; `Err(EmptyNumeric)` style outcomes are
    /// reported through `empty` so that the caller can expect a compile error instead
    fn unroll(&self, e: &DE, env: &Env, empty: &mut Option<&'static str>) -> Result<String, UnrollErr> {
        let num = |f: f64| if f < 0.0 { format!("(-{})", crate::text::num_text(f)) } else { crate::text::num_text(f) };
        Ok(match e {
            DE::Num(f) => num(*f),
            DE::Const(i) => match self.ieval(i, env)?.num() {
                Some(f) => num(f),
                None => return und("non-numeric constant in an expression"),
            },
            DE::Var(base, idx) => self.flat_name(base, idx, env)?,
            DE::Add(a, b) => format!("({} + {})", self.unroll(a, env, empty)?, self.unroll(b, env, empty)?),
            DE::Sub(a, b) => format!("({} - {})", self.unroll(a, env, empty)?, self.unroll(b, env, empty)?),
            DE::Mul(a, b) => format!("({} * {})", self.unroll(a, env, empty)?, self.unroll(b, env, empty)?),
            DE::Neg(a) => format!("(-{})", self.unroll(a, env, empty)?),
            DE::Abs(a) => format!("abs {{ {} }}", self.unroll(a, env, empty)?),
            DE::Not(a) => format!("(not ({}))", self.unroll(a, env, empty)?),
            DE::Implies(a, b) => format!("(({}) implies ({}))", self.unroll(a, env, empty)?, self.unroll(b, env, empty)?),
            DE::Block(kind, items) => {
                let parts: Vec<String> = items.iter().map(|x| self.unroll(x, env, empty)).collect::<Result<_, _>>()?;
                self.fold(*kind, parts, empty)
            }
            DE::Scoped(kind, binds, body) => {
                let mut parts = vec![];
                for en in self.envs(binds, env)? {
                    parts.push(self.unroll(body, &en, empty)?);
                }
                self.fold(*kind, parts, empty)
            }
        })
    }

    fn fold(&self, kind: Agg, parts: Vec<String>, empty: &mut Option<&'static str>) -> String {
        if parts.is_empty() {
            return match kind {
                Agg::Sum => "0".into(),
                Agg::Prod => "1".into(),
                Agg::All => "true".into(),
                Agg::Any => "false".into(),
                Agg::Xor => "false".into(),
                Agg::Avg => {
                    *empty = Some("avg");
                    "0".into()
                }
                Agg::Min => {
                    *empty = Some("min");
                    "0".into()
                }
                Agg::Max => {
                    *empty = Some("max");
                    "0".into()
                }
            };
        }
        match kind {
            Agg::Sum => format!("({})", parts.join(" + ")),
            Agg::Prod => format!("({})", parts.join(" * ")),
            Agg::Avg => format!("(({}) / {})", parts.join(" + "), parts.len()),
            Agg::Min => format!("min {{ {} }}", parts.join(", ")),
            Agg::Max => format!("max {{ {} }}", parts.join(", ")),
            Agg::All => format!("all {{ {} }}", parts.join(", ")),
            Agg::Any => format!("any {{ {} }}", parts.join(", ")),
            Agg::Xor => format!("({})", parts.join(" xor ")),
        }
    }

    // ---------------- printing P (with the language constructs) ----------------

    fn p_iexp(e: &IExp) -> String {
        match e {
            IExp::Lit(i) => {
                if *i < 0 {
                    format!("(-{})", -i)
                } else {
                    i.to_string()
                }
            }
            IExp::Var(n) => n.clone(),
            IExp::Len(n) => format!("len({n})"),
            IExp::At(n, idx) => format!("{n}{}", idx.iter().map(|i| format!("[{}]", Self::p_iexp(i))).collect::<String>()),
            IExp::Add(a, b) => format!("({} + {})", Self::p_iexp(a), Self::p_iexp(b)),
            IExp::Sub(a, b) => format!("({} - {})", Self::p_iexp(a), Self::p_iexp(b)),
            IExp::Mul(a, b) => format!("({} * {})", Self::p_iexp(a), Self::p_iexp(b)),
        }
    }
    fn p_iter(it: &Iter) -> String {
        match it {
            Iter::Range(lo, hi, incl) => format!("{}{}{}", Self::p_iexp(lo), if *incl { "..=" } else { ".." }, Self::p_iexp(hi)),
            Iter::Name(n) => n.clone(),
            Iter::Enumerate(i) => format!("enumerate({})", Self::p_iter(i)),
            Iter::Zip(a, b) => format!("zip({}, {})", Self::p_iter(a), Self::p_iter(b)),
            Iter::SetOp(op, a, b) => format!("{op}({a}, {b})"),
            Iter::Nodes(g) => format!("nodes({g})"),
            Iter::Edges(g) => format!("edges({g})"),
            Iter::NeighEdges(v) => format!("neigh_edges({v})"),
            Iter::NeighEdgesOf(v, g) => format!("neigh_edges_of({v}, {g})"),
        }
    }
    fn p_binds(binds: &[Bind]) -> String {
        binds
            .iter()
            .map(|b| {
                let pat = match &b.pat {
                    Pat::One(n) => n.clone(),
                    Pat::Tuple(ns) => format!("({})", ns.iter().map(|n| n.clone().unwrap_or("_".into())).collect::<Vec<_>>().join(", ")),
                };
                format!("{pat} in {}", Self::p_iter(&b.iter))
            })
            .collect::<Vec<_>>()
            .join(", ")
    }
    fn p_name(base: &str, idx: &[IExp]) -> String {
        let mut s = base.to_string();
        for i in idx {
            s.push('_');
            match i {
                IExp::Var(n) => s.push_str(n),
                IExp::Lit(k) if *k >= 0 => s.push_str(&k.to_string()),
                other => s.push_str(&format!("{{{}}}", Self::p_iexp(other))),
            }
        }
        s
    }
    fn p_de(e: &DE) -> String {
        match e {
            DE::Num(f) => {
                if *f < 0.0 {
                    format!("(-{})", crate::text::num_text(*f))
                } else {
                    crate::text::num_text(*f)
                }
            }
            DE::Const(i) => Self::p_iexp(i),
            DE::Var(base, idx) => Self::p_name(base, idx),
            DE::Add(a, b) => format!("({} + {})", Self::p_de(a), Self::p_de(b)),
            DE::Sub(a, b) => format!("({} - {})", Self::p_de(a), Self::p_de(b)),
            DE::Mul(a, b) => format!("({} * {})", Self::p_de(a), Self::p_de(b)),
            DE::Neg(a) => format!("(-{})", Self::p_de(a)),
            DE::Abs(a) => format!("abs {{ {} }}", Self::p_de(a)),
            DE::Not(a) => format!("(not ({}))", Self::p_de(a)),
            DE::Implies(a, b) => format!("(({}) implies ({}))", Self::p_de(a), Self::p_de(b)),
            DE::Block(kind, items) => {
                let inner = items.iter().map(Self::p_de).collect::<Vec<_>>().join(", ");
                format!("{} {{ {} }}", kind.spelled(inner.len()), inner)
            }
            DE::Scoped(kind, binds, body) => {
                let inner = Self::p_de(body);
                format!("{}({}) {{ {} }}", kind.spelled(inner.len()), Self::p_binds(binds), inner)
            }
        }
    }

    fn where_text(&self) -> String {
        if self.consts.is_empty() && self.graphs.is_empty() {
            return String::new();
        }
        let mut s = String::from("where\n");
        for (n, v) in &self.consts {
            let text = self.const_text.iter().find(|(k, _)| k == n).map(|(_, t)| t.clone()).unwrap_or_else(|| v.literal());
            s.push_str(&format!("    let {n} = {text}\n"));
        }
        for (n, g) in &self.graphs {
            s.push_str(&format!("    let {n} = {}\n", g.literal()));
        }
        s
    }

    pub fn text_p(&self) -> String {
        let mut s = String::new();
        if self.sense == "solve" {
            s.push_str("solve\n");
        } else {
            s.push_str(&format!("{} {}\n", self.sense, Self::p_de(&self.obj)));
        }
        s.push_str("s.t.\n");
        for c in &self.cons {
            let name = c.name.as_ref().map(|(b, i)| format!("{}: ", Self::p_name(b, i))).unwrap_or_default();
            let body = if c.rel.is_empty() { Self::p_de(&c.lhs) } else { format!("{} {} {}", Self::p_de(&c.lhs), c.rel, Self::p_de(&c.rhs)) };
            let iter = if c.binds.is_empty() { String::new() } else { format!(" for {}", Self::p_binds(&c.binds)) };
            s.push_str(&format!("    {name}{body}{iter}\n"));
        }
        s.push_str(&self.where_text());
        s.push_str("define\n");
        for d in &self.decls {
            let iter = if d.binds.is_empty() { String::new() } else { format!(" for {}", Self::p_binds(&d.binds)) };
            s.push_str(&format!("    {} as {}{iter}\n", Self::p_name(&d.base, &d.idx), d.ty));
        }
        s
    }

    /// The hand-unrolled twin. Ok((text, expected_empty_aggregation)).
    pub fn text_u(&self) -> Result<(String, Option<&'static str>), UnrollErr> {
        let env = self.global_env();
        let mut empty = None;
        let mut s = String::new();
        if self.sense == "solve" {
            s.push_str("solve\n");
        } else {
            s.push_str(&format!("{} {}\n", self.sense, self.unroll(&self.obj, &env, &mut empty)?));
        }
        s.push_str("s.t.\n");
        let mut any_row = false;
        for c in &self.cons {
            for en in self.envs(&c.binds, &env)? {
                let name = match &c.name {
                    Some((b, i)) => format!("{}: ", self.flat_name(b, i, &en)?),
                    None => String::new(),
                };
                let lhs = self.unroll(&c.lhs, &en, &mut empty)?;
                let body = if c.rel.is_empty() { lhs } else { format!("{lhs} {} {}", c.rel, self.unroll(&c.rhs, &en, &mut empty)?) };
                s.push_str(&format!("    {name}{body}\n"));
                any_row = true;
            }
        }
        if !any_row {
            s.push('\n');
        }
        s.push_str("define\n");
        let mut seen = vec![];
        for d in &self.decls {
            for en in self.envs(&d.binds, &env)? {
                let n = self.flat_name(&d.base, &d.idx, &en)?;
                if seen.contains(&n) {
                    continue; // a repeated declaration with the same type is ignored by the language
                }
                seen.push(n.clone());
                s.push_str(&format!("    {n} as {}\n", d.ty));
            }
        }
        Ok((s, empty))
    }
}

// ---------------------------------------------------------------------------
// generator
// ---------------------------------------------------------------------------

fn small_array(rng: &mut ChaCha8Rng, len: std::ops::Range<usize>, distinct: bool) -> V {
    let len = if len.start + 1 >= len.end { len.start } else { rng.gen_range(len) };
    let mut xs: Vec<V> = vec![];
    while xs.len() < len {
        let v = if rng.gen_bool(0.8) { V::Int(rng.gen_range(0..7)) } else { V::Num(rng.gen_range(1..8) as f64 / 2.0 + 0.25) };
        if distinct && xs.contains(&v) {
            continue;
        }
        xs.push(v);
    }
    V::Arr(xs)
}

fn var_types(rng: &mut ChaCha8Rng) -> String {
    ["Boolean", "Real(0, 5)", "NonNegativeReal(0, 4)", "IntegerRange(0, 3)", "Real(-2, 2)"][rng.gen_range(0..5)].to_string()
}

fn lit(i: i64) -> IExp {
    IExp::Lit(i)
}
fn var(n: &str) -> IExp {
    IExp::Var(n.to_string())
}
fn bx<T>(t: T) -> Box<T> {
    Box::new(t)
}

/// One random data-driven program. `shape` selects the construct family under test.
pub fn gen_prog(rng: &mut ChaCha8Rng) -> (Prog, &'static str) {
    let (mut p, label) = gen_prog_plain(rng);
    if rng.gen_bool(0.12) {
        // plain decision variables that share their names with iteration variables: inside an iteration the
        // iteration variable is meant, outside it the decision variable
        for name in ["i", "v", "j"] {
            if p.consts.iter().any(|(n, _)| n == name) || p.decls.iter().any(|d| d.base == name) {
                continue;
            }
            p.decls.push(DDecl { base: name.into(), idx: vec![], ty: "Real(0, 5)".into(), binds: vec![] });
            p.cons.push(DCon { name: None, lhs: DE::Var(name.into(), vec![]), rel: "<=", rhs: DE::Num(4.0), binds: vec![] });
        }
    }
    if rng.gen_bool(0.12) && !p.consts.iter().any(|(n, _)| n == "B2") && !p.decls.iter().any(|d| d.base == "zz") {
        // a difference of two run-time non-negative integers (a length and a range variable) that goes below zero
        // in a range end: 0..(len(B2) - i) for i beyond the length is an empty range, not an error
        let m = rng.gen_range(1..4);
        p.consts.push(("B2".into(), V::Arr((0..m).map(|k| V::Int(k + 1)).collect())));
        p.decls.push(DDecl { base: "zz".into(), idx: vec![var("kk")], ty: "Real(0, 5)".into(), binds: vec![Bind { pat: Pat::One("kk".into()), iter: Iter::Range(lit(0), lit(6), false) }] });
        p.cons.push(DCon {
            name: Some(("diff".into(), vec![var("ii")])),
            lhs: DE::Scoped(Agg::Sum, vec![Bind { pat: Pat::One("kk".into()), iter: Iter::Range(lit(0), IExp::Sub(bx(IExp::Len("B2".into())), bx(var("ii"))), false) }], bx(DE::Var("zz".into(), vec![var("kk")]))),
            rel: "<=",
            rhs: DE::Num(3.0),
            binds: vec![Bind { pat: Pat::One("ii".into()), iter: Iter::Range(lit(0), lit(5), false) }],
        });
    }
    (p, label)
}

fn gen_prog_plain(rng: &mut ChaCha8Rng) -> (Prog, &'static str) {
    let shape = rng.gen_range(0..12);
    let n = rng.gen_range(0..4) as i64; // 0 gives empty ranges / aggregations
    let a = small_array(rng, 0..4, false);
    let b = small_array(rng, 1..4, false);
    let numeric_ty = ["Real(0, 5)", "NonNegativeReal(0, 4)", "IntegerRange(0, 3)", "Real(-2, 2)"][rng.gen_range(0..4)].to_string();
    let incl = rng.gen_bool(0.4);
    let lo = rng.gen_range(0..3) as i64;
    let hi = if rng.gen_bool(0.15) { lo - 1 } else { lo + n - if incl { 1 } else { 0 } }; // sometimes reversed
    let decl_range = Iter::Range(lit(0), lit(8), false);
    let cmp = ["<=", ">=", "="][rng.gen_range(0..3)];
    let sense = ["min", "max"][rng.gen_range(0..2)];
    let agg_num = [Agg::Sum, Agg::Sum, Agg::Avg, Agg::Min, Agg::Max][rng.gen_range(0..5)];
    let base = Prog { sense, obj: DE::Num(0.0), cons: vec![], consts: vec![], const_text: vec![], graphs: vec![], decls: vec![] };
    match shape {
        0 => {
            // aggregation over a range with an index expression
            let mut p = base;
            p.consts.push(("k".into(), V::Int(rng.gen_range(1..4))));
            p.obj = DE::Scoped(agg_num, vec![Bind { pat: Pat::One("i".into()), iter: Iter::Range(lit(lo), lit(hi), incl) }], bx(DE::Mul(bx(DE::Const(IExp::Add(bx(var("i")), bx(var("k"))))), bx(DE::Var("x".into(), vec![var("i")])))));
            p.cons.push(DCon { name: Some(("c".into(), vec![var("i")])), lhs: DE::Var("x".into(), vec![var("i")]), rel: cmp, rhs: DE::Const(IExp::Mul(bx(var("i")), bx(var("k")))), binds: vec![Bind { pat: Pat::One("i".into()), iter: Iter::Range(lit(lo), lit(hi), incl) }] });
            p.decls.push(DDecl { base: "x".into(), idx: vec![var("i")], ty: numeric_ty, binds: vec![Bind { pat: Pat::One("i".into()), iter: decl_range }] });
            (p, "range+index-arithmetic")
        }
        1 => {
            // enumerate over an array, weights as coefficients
            let mut p = base;
            p.consts.push(("A".into(), a));
            p.consts.push(("cap".into(), V::Int(rng.gen_range(2..9))));
            let binds = vec![Bind { pat: Pat::Tuple(vec![Some("v".into()), Some("i".into())]), iter: Iter::Enumerate(bx(Iter::Name("A".into()))) }];
            p.obj = DE::Scoped(Agg::Sum, binds.clone(), bx(DE::Mul(bx(DE::Const(var("v"))), bx(DE::Var("x".into(), vec![var("i")])))));
            p.cons.push(DCon { name: Some(("total".into(), vec![])), lhs: DE::Scoped(agg_num, binds, bx(DE::Mul(bx(DE::Const(IExp::Add(bx(var("v")), bx(lit(1))))), bx(DE::Var("x".into(), vec![var("i")]))))), rel: "<=", rhs: DE::Const(var("cap")), binds: vec![] });
            p.decls.push(DDecl { base: "x".into(), idx: vec![var("i")], ty: numeric_ty, binds: vec![Bind { pat: Pat::One("i".into()), iter: Iter::Range(lit(0), IExp::Len("A".into()), false) }] });
            if rng.gen_bool(0.5) {
                // a tuple pattern with a single name binds the first component: (v) in enumerate(A)
                p.cons.push(DCon {
                    name: Some(("one".into(), vec![])),
                    lhs: DE::Scoped(Agg::Sum, vec![Bind { pat: Pat::Tuple(vec![Some("v".into())]), iter: Iter::Enumerate(bx(Iter::Name("A".into()))) }], bx(DE::Mul(bx(DE::Const(IExp::Add(bx(var("v")), bx(lit(2))))), bx(DE::Var("x".into(), vec![lit(0)]))))),
                    rel: "<=",
                    rhs: DE::Num(60.0),
                    binds: vec![],
                });
            }
            (p, "enumerate+len")
        }
        2 => {
            // nested dependent ranges and two-index variables (x_1_23 vs x_12_3 style flattening)
            let mut p = base;
            let big = rng.gen_bool(0.5);
            let outer = if big { Iter::Name("I".into()) } else { Iter::Range(lit(0), lit(n.max(1)), false) };
            if big {
                p.consts.push(("I".into(), V::Arr(vec![V::Int(1), V::Int(12)])));
                p.consts.push(("J".into(), V::Arr(vec![V::Int(23), V::Int(3)])));
            }
            let inner = if big { Iter::Name("J".into()) } else { Iter::Range(var("i"), lit(n.max(1) + 1), false) };
            let binds = vec![Bind { pat: Pat::One("i".into()), iter: outer.clone() }, Bind { pat: Pat::One("j".into()), iter: inner.clone() }];
            p.obj = DE::Scoped(Agg::Sum, binds.clone(), bx(DE::Var("x".into(), vec![var("i"), var("j")])));
            p.cons.push(DCon { name: Some(("lim".into(), vec![var("i"), var("j")])), lhs: DE::Add(bx(DE::Var("x".into(), vec![var("i"), var("j")])), bx(DE::Const(var("j")))), rel: cmp, rhs: DE::Const(IExp::Add(bx(var("i")), bx(lit(2)))), binds: binds.clone() });
            p.cons.push(DCon { name: None, lhs: DE::Scoped(agg_num, vec![Bind { pat: Pat::One("j".into()), iter: inner }], bx(DE::Var("x".into(), vec![var("i"), var("j")]))), rel: "<=", rhs: DE::Num(3.0), binds: vec![Bind { pat: Pat::One("i".into()), iter: outer }] });
            let dbinds = if big { binds } else { vec![Bind { pat: Pat::One("i".into()), iter: Iter::Range(lit(0), lit(6), false) }, Bind { pat: Pat::One("j".into()), iter: Iter::Range(lit(0), lit(6), false) }] };
            p.decls.push(DDecl { base: "x".into(), idx: vec![var("i"), var("j")], ty: numeric_ty, binds: dbinds });
            (p, "nested-iteration+two-indexes")
        }
        3 => {
            // matrix rows: R in M, el in R ; array access M[i][j]
            let mut p = base;
            let rows = rng.gen_range(1..3);
            let cols = rng.gen_range(1..4);
            let m = V::Arr((0..rows).map(|_| small_array(rng, cols..cols + 1, false)).collect());
            p.consts.push(("M".into(), m));
            p.obj = DE::Scoped(Agg::Sum, vec![Bind { pat: Pat::One("r".into()), iter: Iter::Range(lit(0), IExp::Len("M".into()), false) }, Bind { pat: Pat::One("c".into()), iter: Iter::Range(lit(0), lit(cols as i64), false) }], bx(DE::Mul(bx(DE::Const(IExp::At("M".into(), vec![var("r"), var("c")]))), bx(DE::Var("y".into(), vec![var("c")])))));
            p.cons.push(DCon { name: None, lhs: DE::Scoped(agg_num, vec![Bind { pat: Pat::Tuple(vec![Some("el".into()), Some("c".into())]), iter: Iter::Enumerate(bx(Iter::Name("R".into()))) }], bx(DE::Mul(bx(DE::Const(var("el"))), bx(DE::Var("y".into(), vec![var("c")]))))), rel: cmp, rhs: DE::Const(IExp::At("R".into(), vec![lit(0)])), binds: vec![Bind { pat: Pat::One("R".into()), iter: Iter::Name("M".into()) }] });
            p.decls.push(DDecl { base: "y".into(), idx: vec![var("c")], ty: numeric_ty, binds: vec![Bind { pat: Pat::One("c".into()), iter: Iter::Range(lit(0), lit(cols as i64), false) }] });
            if rng.gen_bool(0.5) {
                // three levels and three indexes: T[i][j][k] with pairwise different entries
                let t = V::Arr((0..2).map(|i| V::Arr((0..2).map(|j| V::Arr((0..2).map(|k| V::Int(1 + i * 4 + j * 2 + k + rng.gen_range(0..2) * 10)).collect())).collect())).collect());
                p.consts.push(("T".into(), t));
                p.cons.push(DCon {
                    name: Some(("tens".into(), vec![var("i"), var("j")])),
                    lhs: DE::Mul(bx(DE::Const(IExp::At("T".into(), vec![var("i"), var("j"), lit(0)]))), bx(DE::Var("y".into(), vec![lit(0)]))),
                    rel: "<=",
                    rhs: DE::Const(IExp::Add(bx(IExp::At("T".into(), vec![var("i"), var("j"), lit(1)])), bx(lit(50)))),
                    binds: vec![Bind { pat: Pat::One("i".into()), iter: Iter::Range(lit(0), lit(2), false) }, Bind { pat: Pat::One("j".into()), iter: Iter::Range(lit(0), lit(2), false) }],
                });
            }
            (p, "nested-arrays+array-access")
        }
        4 => {
            // zip of two arrays
            let mut p = base;
            p.consts.push(("A".into(), small_array(rng, 1..4, false)));
            p.consts.push(("B".into(), b));
            let binds = vec![Bind { pat: Pat::Tuple(vec![Some("p".into()), Some("q".into())]), iter: Iter::Zip(bx(Iter::Name("A".into())), bx(Iter::Name("B".into()))) }];
            p.obj = DE::Var("z".into(), vec![]);
            p.cons.push(DCon { name: None, lhs: DE::Mul(bx(DE::Const(var("p"))), bx(DE::Var("z".into(), vec![]))), rel: cmp, rhs: DE::Const(IExp::Add(bx(var("q")), bx(lit(1)))), binds: binds.clone() });
            p.cons.push(DCon { name: Some(("s".into(), vec![])), lhs: DE::Scoped(agg_num, binds, bx(DE::Mul(bx(DE::Const(IExp::Mul(bx(var("p")), bx(var("q"))))), bx(DE::Var("z".into(), vec![]))))), rel: "<=", rhs: DE::Num(40.0), binds: vec![] });
            p.decls.push(DDecl { base: "z".into(), idx: vec![], ty: "Real(0, 6)".into(), binds: vec![] });
            (p, "zip")
        }
        5 => {
            // set functions
            let mut p = base;
            let op = ["union", "intersection", "difference"][rng.gen_range(0..3)];
            // operands: array literals (non-negative, or with negative entries) and ranges written with
            // range(): equal numbers then meet as different number kinds
            for name in ["A", "B"] {
                match rng.gen_range(0..4) {
                    0 => {
                        let lo = rng.gen_range(-2..=1);
                        let hi = lo + rng.gen_range(0..5);
                        p.consts.push((name.into(), V::Arr((lo..hi).map(V::Int).collect())));
                        p.const_text.push((name.into(), format!("range({lo}, {hi}, false)")));
                    }
                    1 => {
                        let mut xs: Vec<V> = vec![];
                        for _ in 0..rng.gen_range(0..4) {
                            let v = V::Int(rng.gen_range(0..5)); // array literals cannot hold negative numbers
                            if !xs.contains(&v) {
                                xs.push(v);
                            }
                        }
                        p.consts.push((name.into(), V::Arr(xs)));
                    }
                    _ => {
                        if name == "A" {
                            p.consts.push((name.into(), small_array(rng, 0..4, true)));
                        } else {
                            p.consts.push((name.into(), V::Arr((0..rng.gen_range(0..4)).map(|_| V::Int(rng.gen_range(0..7))).collect::<Vec<_>>().into_iter().fold(vec![], |mut acc, v| { if !acc.contains(&v) { acc.push(v); } acc }))));
                        }
                    }
                }
            }
            let binds = vec![Bind { pat: Pat::One("e".into()), iter: Iter::SetOp(op, "A".into(), "B".into()) }];
            p.obj = DE::Scoped(Agg::Sum, binds.clone(), bx(DE::Mul(bx(DE::Const(var("e"))), bx(DE::Var("w".into(), vec![])))));
            p.cons.push(DCon { name: Some(("m".into(), vec![])), lhs: DE::Var("w".into(), vec![]), rel: ">=", rhs: DE::Const(IExp::Add(bx(var("e")), bx(lit(0)))), binds });
            p.decls.push(DDecl { base: "w".into(), idx: vec![], ty: "Real(0, 9)".into(), binds: vec![] });
            (p, "set-functions")
        }
        6 | 7 => {
            // graph: nodes, edges, neighbours, tuple destructuring with _
            let mut p = base;
            let names = ["Na", "Nb", "Nc", "Nd"];
            let k = rng.gen_range(2..5);
            let weighted = rng.gen_bool(0.5);
            let mut nodes = vec![];
            for i in 0..k {
                let mut es = vec![];
                for j in 0..k {
                    if i != j && rng.gen_bool(0.45) {
                        es.push((names[j].to_string(), if weighted && rng.gen_bool(0.7) { Some(rng.gen_range(-3..6) as f64) } else { None }));
                    }
                }
                nodes.push((names[i].to_string(), es));
            }
            p.graphs.push(("G".into(), GraphData { nodes }));
            p.obj = DE::Scoped(Agg::Sum, vec![Bind { pat: Pat::One("u".into()), iter: Iter::Nodes("G".into()) }], bx(DE::Var("x".into(), vec![var("u")])));
            if shape == 6 {
                p.cons.push(DCon { name: Some(("e".into(), vec![var("u"), var("v")])), lhs: DE::Add(bx(DE::Var("x".into(), vec![var("u")])), bx(DE::Var("x".into(), vec![var("v")]))), rel: ">=", rhs: DE::Const(var("w")), binds: vec![Bind { pat: Pat::Tuple(vec![Some("u".into()), Some("v".into()), Some("w".into())]), iter: Iter::Edges("G".into()) }] });
                p.cons.push(DCon { name: None, lhs: DE::Add(bx(DE::Var("x".into(), vec![var("v")])), bx(DE::Scoped(Agg::Sum, vec![Bind { pat: Pat::Tuple(vec![None, Some("u".into())]), iter: Iter::NeighEdges("v".into()) }], bx(DE::Var("x".into(), vec![var("u")]))))), rel: ">=", rhs: DE::Num(1.0), binds: vec![Bind { pat: Pat::One("v".into()), iter: Iter::Nodes("G".into()) }] });
            } else {
                p.consts.push(("start".into(), V::Str(names[rng.gen_range(0..k)].to_string())));
                p.cons.push(DCon { name: Some(("out".into(), vec![])), lhs: DE::Scoped(Agg::Sum, vec![Bind { pat: Pat::Tuple(vec![None, Some("t".into()), Some("w".into())]), iter: Iter::NeighEdgesOf("start".into(), "G".into()) }], bx(DE::Mul(bx(DE::Const(var("w"))), bx(DE::Var("x".into(), vec![var("t")]))))), rel: "<=", rhs: DE::Num(2.0), binds: vec![] });
                p.cons.push(DCon { name: None, lhs: DE::Var("x".into(), vec![var("a")]), rel: "<=", rhs: DE::Var("x".into(), vec![var("b")]), binds: vec![Bind { pat: Pat::Tuple(vec![Some("a".into()), Some("b".into())]), iter: Iter::Edges("G".into()) }] });
            }
            p.decls.push(DDecl { base: "x".into(), idx: vec![var("u")], ty: if rng.gen_bool(0.5) { "Boolean".into() } else { "Real(0, 3)".into() }, binds: vec![Bind { pat: Pat::One("u".into()), iter: Iter::Nodes("G".into()) }] });
            (p, if shape == 6 { "graph:edges+neigh_edges" } else { "graph:neigh_edges_of+weights" })
        }
        8 => {
            // logic aggregations over Boolean families
            let mut p = base;
            let kind = [Agg::All, Agg::Any, Agg::Xor][rng.gen_range(0..3)];
            let r = Iter::Range(lit(0), lit(n), false);
            p.sense = "solve";
            p.cons.push(DCon { name: Some(("logic".into(), vec![])), lhs: DE::Scoped(kind, vec![Bind { pat: Pat::One("i".into()), iter: r.clone() }], bx(DE::Var("b".into(), vec![var("i")]))), rel: "", rhs: DE::Num(0.0), binds: vec![] });
            p.cons.push(DCon { name: None, lhs: DE::Implies(bx(DE::Var("b".into(), vec![var("i")])), bx(DE::Not(bx(DE::Var("b".into(), vec![IExp::Add(bx(var("i")), bx(lit(1)))]))))), rel: "", rhs: DE::Num(0.0), binds: vec![Bind { pat: Pat::One("i".into()), iter: Iter::Range(lit(0), lit(n.max(1) - 1), false) }] });
            p.cons.push(DCon { name: None, lhs: DE::Scoped(Agg::Sum, vec![Bind { pat: Pat::One("i".into()), iter: r }], bx(DE::Var("b".into(), vec![var("i")]))), rel: "<=", rhs: DE::Num(2.0), binds: vec![] });
            p.decls.push(DDecl { base: "b".into(), idx: vec![var("i")], ty: "Boolean".into(), binds: vec![Bind { pat: Pat::One("i".into()), iter: Iter::Range(lit(0), lit(6), false) }] });
            (p, "logic-aggregations")
        }
        9 => {
            // expansion blocks with explicit lists mixed with scoped ones, prod over constants
            let mut p = base;
            p.consts.push(("A".into(), small_array(rng, 1..4, false)));
            let kind = [Agg::Min, Agg::Max, Agg::Avg, Agg::Sum][rng.gen_range(0..4)];
            p.obj = DE::Mul(bx(DE::Scoped(Agg::Prod, vec![Bind { pat: Pat::One("i".into()), iter: Iter::Range(lit(1), lit(n), true) }], bx(DE::Const(var("i"))))), bx(DE::Var("x".into(), vec![])));
            p.cons.push(DCon { name: None, lhs: DE::Block(if kind == Agg::Sum { Agg::Max } else { kind }, vec![DE::Var("x".into(), vec![]), DE::Scoped(kind, vec![Bind { pat: Pat::One("v".into()), iter: Iter::Name("A".into()) }], bx(DE::Add(bx(DE::Var("y".into(), vec![])), bx(DE::Const(var("v")))))), DE::Num(1.5)]), rel: "<=", rhs: DE::Num(9.0), binds: vec![] });
            p.cons.push(DCon { name: None, lhs: DE::Abs(bx(DE::Sub(bx(DE::Var("x".into(), vec![])), bx(DE::Var("y".into(), vec![]))))), rel: "<=", rhs: DE::Const(IExp::Len("A".into())), binds: vec![] });
            p.decls.push(DDecl { base: "x".into(), idx: vec![], ty: "Real(0, 5)".into(), binds: vec![] });
            p.decls.push(DDecl { base: "y".into(), idx: vec![], ty: "Real(-1, 4)".into(), binds: vec![] });
            (p, "blocks+prod")
        }
        10 => {
            // computed constraint names and names built from array values
            let mut p = base;
            p.consts.push(("A".into(), small_array(rng, 1..4, true)));
            p.obj = DE::Scoped(Agg::Sum, vec![Bind { pat: Pat::One("v".into()), iter: Iter::Name("A".into()) }], bx(DE::Var("q".into(), vec![var("v")])));
            p.cons.push(DCon { name: Some(("lim".into(), vec![IExp::Add(bx(var("i")), bx(lit(10)))])), lhs: DE::Var("q".into(), vec![IExp::At("A".into(), vec![var("i")])]), rel: cmp, rhs: DE::Const(IExp::Mul(bx(var("i")), bx(lit(2)))), binds: vec![Bind { pat: Pat::One("i".into()), iter: Iter::Range(lit(0), IExp::Len("A".into()), false) }] });
            p.decls.push(DDecl { base: "q".into(), idx: vec![var("v")], ty: var_types(rng), binds: vec![Bind { pat: Pat::One("v".into()), iter: Iter::Name("A".into()) }] });
            (p, "computed-names")
        }
        _ => {
            // inclusive / exclusive / empty / reversed ranges with for-quantified declarations
            let mut p = base;
            let r = Iter::Range(lit(lo), lit(hi), incl);
            p.obj = DE::Add(bx(DE::Scoped(Agg::Sum, vec![Bind { pat: Pat::One("i".into()), iter: r.clone() }], bx(DE::Mul(bx(DE::Const(var("i"))), bx(DE::Var("x".into(), vec![var("i")])))))), bx(DE::Var("t".into(), vec![])));
            p.cons.push(DCon { name: Some(("r".into(), vec![var("i")])), lhs: DE::Sub(bx(DE::Var("x".into(), vec![var("i")])), bx(DE::Var("t".into(), vec![]))), rel: cmp, rhs: DE::Const(var("i")), binds: vec![Bind { pat: Pat::One("i".into()), iter: r.clone() }] });
            p.decls.push(DDecl { base: "x".into(), idx: vec![var("i")], ty: numeric_ty, binds: vec![Bind { pat: Pat::One("i".into()), iter: r }] });
            p.decls.push(DDecl { base: "t".into(), idx: vec![], ty: "Real(0, 2)".into(), binds: vec![] });
            (p, "range-forms+for-declarations")
        }
    }
}

#[allow(dead_code)]
fn unused(rng: &mut ChaCha8Rng) {
    let _ = [0].choose(rng);
}
