//! Sharded execution in sacrificial worker subprocesses, aggregation, evidence, replays,
//! known findings and the exit-code contract.
use rand::SeedableRng;
use rand_chacha::ChaCha8Rng;
use serde::{Deserialize, Serialize};
use serde_json::{Value, json};
use std::collections::{BTreeMap, BTreeSet};
use std::io::{BufRead, BufReader, Read, Write};
use std::process::{Command, Stdio};
use std::sync::mpsc;
use std::time::{Duration, Instant};

#[derive(Debug, Clone, Copy, PartialEq, Eq)]
pub enum Tier {
    Quick,
    Thorough,
}

impl Tier {
    pub fn name(self) -> &'static str {
        match self {
            Tier::Quick => "quick",
            Tier::Thorough => "thorough",
        }
    }
    pub fn parse(s: &str) -> Option<Tier> {
        match s {
            "quick" => Some(Tier::Quick),
            "thorough" => Some(Tier::Thorough),
            _ => None,
        }
    }
    pub fn pick<T>(self, quick: T, thorough: T) -> T {
        match self {
            Tier::Quick => quick,
            Tier::Thorough => thorough,
        }
    }
}

#[derive(Debug, Clone)]
pub struct Ctx {
    pub tier: Tier,
    pub seed: u64,
}

pub fn unit_rng(ctx: &Ctx, prop: &str, unit: usize) -> ChaCha8Rng {
    let mut h: u64 = 0xcbf29ce484222325;
    let mut feed = |b: u8| {
        h ^= b as u64;
        h = h.wrapping_mul(0x100000001b3);
    };
    for b in ctx.seed.to_le_bytes() {
        feed(b);
    }
    for b in prop.bytes() {
        feed(b);
    }
    for b in (unit as u64).to_le_bytes() {
        feed(b);
    }
    ChaCha8Rng::seed_from_u64(h)
}

pub fn hash_str(s: &str) -> u64 {
    let mut h: u64 = 0xcbf29ce484222325;
    for b in s.bytes() {
        h ^= b as u64;
        h = h.wrapping_mul(0x100000001b3);
    }
    h
}

#[derive(Debug, Clone, Serialize, Deserialize)]
pub struct Violation {
    pub sig: String,
    pub what: String,
    pub unit: usize,
    pub case: usize,
    pub detail: Value,
}

#[derive(Debug, Default, Serialize, Deserialize)]
pub struct UnitReport {
    pub evals: u64,
    pub hashes: Vec<u64>,
    pub tags: BTreeMap<String, u64>,
    pub inconclusive: BTreeMap<String, u64>,
    pub samples: Vec<Value>,
}

/// Handle given to drivers while they run a unit inside a worker.
pub struct UnitOut {
    pub unit: usize,
    pub case: usize,
    pub report: UnitReport,
    budget_s: f64,
    sandboxed: bool,
    max_samples: usize,
    pub violations_emitted: usize,
}

impl UnitOut {
    /// Marks the start of a case: journal line + CPU-time budget armed.
    pub fn begin_case(&mut self, case: usize, desc: &str) {
        self.case = case;
        if self.sandboxed {
            let mut d = desc.replace('\n', "\\n");
            if d.len() > 6000 {
                d.truncate(6000);
            }
            println!("C {} {} {}", self.unit, case, d);
            let _ = std::io::stdout().flush();
            arm_cpu_timer(self.budget_s);
        }
    }
    pub fn end_case(&mut self) {
        if self.sandboxed {
            arm_cpu_timer(0.0);
            println!("D {} {}", self.unit, self.case);
        }
    }
    pub fn set_budget(&mut self, s: f64) {
        self.budget_s = s;
    }
    pub fn eval(&mut self) {
        self.report.evals += 1;
    }
    pub fn evals(&mut self, n: u64) {
        self.report.evals += n;
    }
    pub fn tag(&mut self, t: &str) {
        *self.report.tags.entry(t.to_string()).or_insert(0) += 1;
    }
    pub fn tag_n(&mut self, t: &str, n: u64) {
        *self.report.tags.entry(t.to_string()).or_insert(0) += n;
    }
    pub fn nontrivial(&mut self, h: u64) {
        self.report.hashes.push(h);
    }
    pub fn inconclusive(&mut self, why: &str) {
        *self.report.inconclusive.entry(why.to_string()).or_insert(0) += 1;
    }
    pub fn sample(&mut self, v: Value) {
        if self.report.samples.len() < self.max_samples {
            self.report.samples.push(v);
        }
    }
    pub fn violation(&mut self, sig: &str, what: &str, detail: Value) {
        let v = Violation {
            sig: sig.to_string(),
            what: what.to_string(),
            unit: self.unit,
            case: self.case,
            detail,
        };
        self.violations_emitted += 1;
        println!("V {}", serde_json::to_string(&v).unwrap());
        let _ = std::io::stdout().flush();
    }
}

#[derive(Debug, Clone)]
pub struct Crash {
    pub kind: String, // cpu-budget | stack-overflow | alloc-failure | abort | signal-N | exit-N | watchdog
    pub unit: usize,
    pub case: Option<usize>,
    pub desc: String,
    pub stderr_tail: String,
}

pub struct Thresholds {
    /// tags that must each have been observed at least this many times
    pub min_tags: Vec<(&'static str, u64)>,
    pub min_nontrivial: u64,
}

pub trait Driver: Sync {
    fn id(&self) -> &'static str;
    fn units(&self, tier: Tier) -> usize;
    /// Runs the cases of one unit, starting at `start_case` (cases before it are only generated).
    fn run_unit(&self, ctx: &Ctx, out: &mut UnitOut, start_case: usize, only_case: Option<usize>);
    /// true = cases call solvers or hostile inputs: journal every case, CPU budget per case.
    fn sandboxed(&self) -> bool {
        false
    }
    fn cpu_budget_s(&self) -> f64 {
        10.0
    }
    /// How a worker death during a case is judged for this property.
    fn on_crash(&self, _crash: &Crash) -> Option<(String, String)> {
        None
    }
    fn rule(&self) -> String;
    fn thresholds(&self, tier: Tier) -> Thresholds;
    fn assumptions(&self) -> Vec<String> {
        vec![]
    }
    fn exhaustive(&self, _tier: Tier) -> bool {
        false
    }
}

// ---------------------------------------------------------------------------
// CPU-time budget inside the worker: ITIMER_PROF + SIGPROF -> _exit(97)
// ---------------------------------------------------------------------------

extern "C" fn on_sigprof(_sig: libc::c_int) {
    let msg = b"T\n";
    unsafe {
        libc::write(1, msg.as_ptr() as *const libc::c_void, msg.len());
        libc::_exit(97);
    }
}

pub fn install_worker_limits(mem_bytes: u64) {
    unsafe {
        let mut sa: libc::sigaction = std::mem::zeroed();
        sa.sa_sigaction = on_sigprof as usize;
        libc::sigemptyset(&mut sa.sa_mask);
        libc::sigaction(libc::SIGPROF, &sa, std::ptr::null_mut());
        if mem_bytes > 0 {
            let lim = libc::rlimit {
                rlim_cur: mem_bytes,
                rlim_max: mem_bytes,
            };
            libc::setrlimit(libc::RLIMIT_AS, &lim);
        }
        let core = libc::rlimit {
            rlim_cur: 0,
            rlim_max: 0,
        };
        libc::setrlimit(libc::RLIMIT_CORE, &core);
    }
}

pub fn arm_cpu_timer(seconds: f64) {
    let secs = seconds.floor() as i64;
    let usecs = ((seconds - seconds.floor()) * 1e6) as i64;
    let tv = libc::itimerval {
        it_interval: libc::timeval {
            tv_sec: 0,
            tv_usec: 0,
        },
        it_value: libc::timeval {
            tv_sec: secs,
            tv_usec: usecs,
        },
    };
    unsafe {
        libc::setitimer(libc::ITIMER_PROF, &tv, std::ptr::null_mut());
    }
}

// ---------------------------------------------------------------------------
// worker entry point
// ---------------------------------------------------------------------------

pub struct WorkerArgs {
    pub shard: usize,
    pub nshards: usize,
    pub resume_unit: usize,
    pub resume_case: usize,
    pub only: Option<(usize, usize)>,
}

pub fn worker_main(driver: &dyn Driver, ctx: &Ctx, args: WorkerArgs) {
    install_worker_limits(if driver.sandboxed() { 2u64 << 30 } else { 0 });
    let units = driver.units(ctx.tier);
    let run = |unit: usize, start_case: usize, only_case: Option<usize>| {
        let mut out = UnitOut {
            unit,
            case: 0,
            report: UnitReport::default(),
            budget_s: driver.cpu_budget_s(),
            sandboxed: driver.sandboxed(),
            max_samples: 2,
            violations_emitted: 0,
        };
        driver.run_unit(ctx, &mut out, start_case, only_case);
        println!("U {} {}", unit, serde_json::to_string(&out.report).unwrap());
        let _ = std::io::stdout().flush();
    };
    if let Some((u, c)) = args.only {
        run(u, c, Some(c));
        println!("Z");
        return;
    }
    let mut unit = args.shard;
    while unit < units {
        if unit < args.resume_unit {
            unit += args.nshards;
            continue;
        }
        let start = if unit == args.resume_unit {
            args.resume_case
        } else {
            0
        };
        run(unit, start, None);
        unit += args.nshards;
    }
    println!("Z");
    let _ = std::io::stdout().flush();
}

// ---------------------------------------------------------------------------
// supervisor
// ---------------------------------------------------------------------------

enum Msg {
    Line(usize, String),
    Eof(usize),
}

struct WorkerState {
    child: std::process::Child,
    stderr_rx: mpsc::Receiver<String>,
    current: Option<(usize, usize, String)>, // unit, case, desc
    last_unit_done: Option<usize>,
    last_line: Instant,
    finished: bool,
    timed_out_marker: bool,
    gen: usize,
}

#[derive(Default)]
pub struct Aggregate {
    pub evals: u64,
    pub hashes: BTreeSet<u64>,
    pub tags: BTreeMap<String, u64>,
    pub inconclusive: BTreeMap<String, u64>,
    pub samples: Vec<Value>,
    pub violations: Vec<Violation>,
    pub crashes: Vec<Crash>,
    pub units_done: usize,
}

fn spawn_worker(
    exe: &std::path::Path,
    id: &str,
    ctx: &Ctx,
    shard: usize,
    nshards: usize,
    resume: (usize, usize),
    only: Option<(usize, usize)>,
    tx: &mpsc::Sender<Msg>,
    gen: usize,
) -> WorkerState {
    let mut cmd = Command::new(exe);
    cmd.arg("worker")
        .arg(id)
        .arg(ctx.tier.name())
        .arg(ctx.seed.to_string())
        .arg(shard.to_string())
        .arg(nshards.to_string())
        .arg(resume.0.to_string())
        .arg(resume.1.to_string());
    if let Some((u, c)) = only {
        cmd.arg(format!("{u}:{c}"));
    }
    cmd.stdin(Stdio::null())
        .stdout(Stdio::piped())
        .stderr(Stdio::piped());
    let mut child = cmd.spawn().expect("spawn worker");
    let stdout = child.stdout.take().unwrap();
    let stderr = child.stderr.take().unwrap();
    let txc = tx.clone();
    let tag = shard * 1_000_000 + gen;
    std::thread::spawn(move || {
        let rd = BufReader::new(stdout);
        for line in rd.lines() {
            match line {
                Ok(l) => {
                    if txc.send(Msg::Line(tag, l)).is_err() {
                        return;
                    }
                }
                Err(_) => break,
            }
        }
        let _ = txc.send(Msg::Eof(tag));
    });
    let (etx, erx) = mpsc::channel();
    std::thread::spawn(move || {
        let mut rd = stderr;
        let mut buf = Vec::new();
        let _ = rd.read_to_end(&mut buf);
        let s = String::from_utf8_lossy(&buf);
        let tail: String = s.chars().rev().take(1500).collect::<Vec<_>>().into_iter().rev().collect();
        let _ = etx.send(tail);
    });
    WorkerState {
        child,
        stderr_rx: erx,
        current: None,
        last_unit_done: None,
        last_line: Instant::now(),
        finished: false,
        timed_out_marker: false,
        gen,
    }
}

pub fn supervise(driver: &dyn Driver, ctx: &Ctx, only: Option<(usize, usize)>) -> Aggregate {
    let exe = std::env::current_exe().expect("current exe");
    let units = driver.units(ctx.tier);
    let nshards = if only.is_some() {
        1
    } else {
        std::env::var("VERIF_JOBS")
            .ok()
            .and_then(|s| s.parse().ok())
            .unwrap_or_else(|| std::thread::available_parallelism().map(|n| n.get()).unwrap_or(8))
            .min(units.max(1))
    };
    let (tx, rx) = mpsc::channel::<Msg>();
    let mut workers: Vec<WorkerState> = (0..nshards)
        .map(|s| spawn_worker(&exe, driver.id(), ctx, s, nshards, (0, 0), only, &tx, 0))
        .collect();
    let mut agg = Aggregate::default();
    let watchdog = Duration::from_secs(
        std::env::var("VERIF_WATCHDOG_S")
            .ok()
            .and_then(|s| s.parse().ok())
            .unwrap_or(300),
    );
    let mut live = nshards;
    while live > 0 {
        let msg = rx.recv_timeout(Duration::from_secs(2));
        match msg {
            Ok(Msg::Line(tag, line)) => {
                let shard = tag / 1_000_000;
                let gen = tag % 1_000_000;
                let w = &mut workers[shard];
                if w.gen != gen {
                    continue;
                }
                w.last_line = Instant::now();
                let (head, rest) = line.split_at(line.len().min(1));
                let rest = rest.trim_start();
                match head {
                    "C" => {
                        let mut it = rest.splitn(3, ' ');
                        let u = it.next().and_then(|s| s.parse().ok()).unwrap_or(0);
                        let c = it.next().and_then(|s| s.parse().ok()).unwrap_or(0);
                        let d = it.next().unwrap_or("").to_string();
                        w.current = Some((u, c, d));
                    }
                    "D" => {
                        if let Some((_, _, d)) = w.current.as_mut() {
                            // keep position, drop the description: between cases
                            d.clear();
                        }
                    }
                    "V" => {
                        if let Ok(v) = serde_json::from_str::<Violation>(rest) {
                            agg.violations.push(v);
                        }
                    }
                    "U" => {
                        let mut it = rest.splitn(2, ' ');
                        let u: usize = it.next().and_then(|s| s.parse().ok()).unwrap_or(0);
                        if let Some(js) = it.next() {
                            if let Ok(r) = serde_json::from_str::<UnitReport>(js) {
                                agg.evals += r.evals;
                                agg.hashes.extend(r.hashes);
                                for (k, v) in r.tags {
                                    *agg.tags.entry(k).or_insert(0) += v;
                                }
                                for (k, v) in r.inconclusive {
                                    *agg.inconclusive.entry(k).or_insert(0) += v;
                                }
                                if agg.samples.len() < 6 {
                                    agg.samples.extend(r.samples);
                                }
                                agg.units_done += 1;
                            }
                        }
                        w.last_unit_done = Some(u);
                        w.current = None;
                    }
                    "T" => w.timed_out_marker = true,
                    "Z" => w.finished = true,
                    _ => {}
                }
            }
            Ok(Msg::Eof(tag)) => {
                let shard = tag / 1_000_000;
                let gen = tag % 1_000_000;
                if workers[shard].gen != gen {
                    continue;
                }
                let status = workers[shard].child.wait().ok();
                let stderr_tail = workers[shard]
                    .stderr_rx
                    .recv_timeout(Duration::from_secs(5))
                    .unwrap_or_default();
                if workers[shard].finished {
                    live -= 1;
                    continue;
                }
                // died: classify and restart behind the culprit
                use std::os::unix::process::ExitStatusExt;
                let kind = if workers[shard].timed_out_marker
                    || status.and_then(|s| s.code()) == Some(97)
                {
                    "cpu-budget".to_string()
                } else if stderr_tail.contains("has overflowed its stack") {
                    "stack-overflow".to_string()
                } else if stderr_tail.contains("memory allocation of") {
                    "alloc-failure".to_string()
                } else if let Some(sig) = status.and_then(|s| s.signal()) {
                    if sig == libc::SIGABRT {
                        "abort".to_string()
                    } else if sig == libc::SIGKILL && workers[shard].current.is_none() {
                        "killed".to_string()
                    } else {
                        format!("signal-{sig}")
                    }
                } else {
                    format!("exit-{}", status.and_then(|s| s.code()).unwrap_or(-1))
                };
                let cur = workers[shard].current.clone();
                let (resume_unit, resume_case, crash) = match cur {
                    Some((u, c, d)) if !d.is_empty() => (
                        u,
                        c + 1,
                        Crash {
                            kind,
                            unit: u,
                            case: Some(c),
                            desc: d,
                            stderr_tail,
                        },
                    ),
                    Some((u, c, _)) => (
                        u,
                        c + 1,
                        Crash {
                            kind,
                            unit: u,
                            case: None,
                            desc: String::new(),
                            stderr_tail,
                        },
                    ),
                    None => {
                        let next = match workers[shard].last_unit_done {
                            Some(u) => u + nshards,
                            None => shard,
                        };
                        (
                            next + nshards, // skip the unit that killed us without a journal entry
                            0,
                            Crash {
                                kind,
                                unit: next,
                                case: None,
                                desc: String::new(),
                                stderr_tail,
                            },
                        )
                    }
                };
                agg.crashes.push(crash);
                if only.is_some() || agg.crashes.len() > 400 + units / 100 {
                    live -= 1;
                    continue;
                }
                let gen = workers[shard].gen + 1;
                workers[shard] = spawn_worker(
                    &exe,
                    driver.id(),
                    ctx,
                    shard,
                    nshards,
                    (resume_unit, resume_case),
                    None,
                    &tx,
                    gen,
                );
            }
            Err(mpsc::RecvTimeoutError::Timeout) => {
                for w in workers.iter_mut() {
                    if !w.finished && w.last_line.elapsed() > watchdog {
                        let _ = w.child.kill();
                        w.last_line = Instant::now();
                        *agg.inconclusive.entry("watchdog".into()).or_insert(0) += 1;
                    }
                }
            }
            Err(mpsc::RecvTimeoutError::Disconnected) => break,
        }
    }
    agg
}

// ---------------------------------------------------------------------------
// known findings, evidence, exit code
// ---------------------------------------------------------------------------

#[derive(Debug, Deserialize)]
pub struct KnownFinding {
    pub property: String,
    pub signature: String,
    pub status: String,
    #[serde(default)]
    pub note: String,
}

pub fn load_known(root: &std::path::Path) -> Vec<KnownFinding> {
    let p = root.join("known_findings.json");
    match std::fs::read_to_string(&p) {
        Ok(s) => serde_json::from_str(&s).unwrap_or_else(|e| {
            eprintln!("known_findings.json unreadable: {e}");
            vec![]
        }),
        Err(_) => vec![],
    }
}

pub fn verif_root() -> std::path::PathBuf {
    if let Ok(r) = std::env::var("VERIF_ROOT") {
        return r.into();
    }
    let cwd = std::env::current_dir().unwrap();
    if cwd.join("MANIFEST.json").exists() || cwd.join("properties.jsonl").exists() {
        return cwd;
    }
    "/verif".into()
}

pub fn run_check(driver: &dyn Driver, ctx: &Ctx) -> i32 {
    let t0 = Instant::now();
    let root = verif_root();
    let mut agg = supervise(driver, ctx, None);
    // worker deaths become violations or inconclusive according to the driver
    let crashes = std::mem::take(&mut agg.crashes);
    for c in &crashes {
        match driver.on_crash(c) {
            Some((sig, what)) => agg.violations.push(Violation {
                sig,
                what,
                unit: c.unit,
                case: c.case.unwrap_or(0),
                detail: json!({"crash": c.kind, "case": c.desc, "stderr_tail": c.stderr_tail}),
            }),
            None => {
                *agg.inconclusive
                    .entry(format!("worker-died({})", c.kind))
                    .or_insert(0) += 1;
                if c.case.is_none() || c.kind.starts_with("exit-") || c.kind == "abort" {
                    eprintln!(
                        "note: worker died ({}) unit {} case {:?}: {}",
                        c.kind,
                        c.unit,
                        c.case,
                        c.stderr_tail.lines().rev().take(3).collect::<Vec<_>>().join(" | ")
                    );
                }
            }
        }
    }
    let known = load_known(&root);
    let id = driver.id();
    let mut by_sig: BTreeMap<String, Vec<&Violation>> = BTreeMap::new();
    for v in &agg.violations {
        by_sig.entry(v.sig.clone()).or_default().push(v);
    }
    let mut unlisted = 0usize;
    let mut known_hit = vec![];
    let replay_dir = root.join("replays").join(id);
    for (sig, vs) in &by_sig {
        let listed = known
            .iter()
            .any(|k| k.property == id && k.signature == *sig && k.status == "known");
        let first = vs[0];
        let _ = std::fs::create_dir_all(&replay_dir);
        let path = replay_dir.join(format!("{:016x}.json", hash_str(&format!("{sig}|{}|{}", first.unit, first.case))));
        let replay = json!({
            "property": id, "tier": ctx.tier.name(), "seed": ctx.seed,
            "unit": first.unit, "case": first.case, "signature": sig,
            "what": first.what, "detail": first.detail, "occurrences": vs.len(),
        });
        let _ = std::fs::write(&path, serde_json::to_string_pretty(&replay).unwrap());
        if listed {
            println!("KNOWN-FINDING: property={id} {sig}: {} ({} occurrence(s), e.g. {})", first.what, vs.len(), path.display());
            known_hit.push(sig.clone());
        } else {
            unlisted += 1;
            println!("VIOLATION property={id} replay={}", path.display());
            println!("  signature: {sig}");
            println!("  what: {}", first.what);
        }
    }
    let th = driver.thresholds(ctx.tier);
    let mut unmet = vec![];
    for (t, n) in &th.min_tags {
        let got = agg.tags.get(*t).copied().unwrap_or(0);
        if got < *n {
            unmet.push(format!("{t}: {got} < {n}"));
        }
    }
    if (agg.hashes.len() as u64) < th.min_nontrivial {
        unmet.push(format!("distinct_nontrivial: {} < {}", agg.hashes.len(), th.min_nontrivial));
    }
    if agg.units_done < driver.units(ctx.tier) {
        // units lost to crashes are fine as long as they were accounted for
        let lost = driver.units(ctx.tier) - agg.units_done;
        if lost > crashes.len() {
            unmet.push(format!("{lost} unit(s) produced no report"));
        }
    }
    if agg.samples.is_empty() {
        unmet.push("no sample case was recorded for the evidence file".to_string());
    }
    let wall = t0.elapsed().as_secs_f64();
    let evidence = json!({
        "property_id": id,
        "tier": ctx.tier.name(),
        "seed": ctx.seed,
        "level": "exploration",
        "coverage": {
            "evaluations": agg.evals,
            "distinct_nontrivial": agg.hashes.len(),
            "rule": driver.rule(),
            "samples": agg.samples,
            "exhaustive": driver.exhaustive(ctx.tier),
            "observed": agg.tags,
            "inconclusive": agg.inconclusive,
            "thresholds_unmet": unmet,
            "violating_cases": agg.violations.len(),
            "distinct_violation_signatures": by_sig.keys().collect::<Vec<_>>(),
            "known_findings_reproduced": known_hit,
            "worker_deaths": crashes.iter().map(|c| json!({"kind": c.kind, "unit": c.unit, "case": c.case})).collect::<Vec<_>>(),
        },
        "assumptions": driver.assumptions(),
        "wall_s": wall,
        "violations": unlisted,
    });
    let ev_dir = root.join("evidence");
    let _ = std::fs::create_dir_all(&ev_dir);
    let _ = std::fs::write(
        ev_dir.join(format!("{id}.json")),
        serde_json::to_string_pretty(&evidence).unwrap(),
    );
    println!(
        "{id} {}: {} evaluations, {} distinct non-trivial, {} violating case(s) in {} signature(s) ({} unlisted), {:.1}s",
        ctx.tier.name(),
        agg.evals,
        agg.hashes.len(),
        agg.violations.len(),
        by_sig.len(),
        unlisted,
        wall
    );
    if unlisted > 0 {
        return 1;
    }
    if !unmet.is_empty() {
        println!("INCONCLUSIVE property={id} coverage thresholds not met: {}", unmet.join("; "));
        return 2;
    }
    0
}

pub fn run_replay(driver: &dyn Driver, path: &str) -> i32 {
    let s = match std::fs::read_to_string(path) {
        Ok(s) => s,
        Err(e) => {
            eprintln!("cannot read {path}: {e}");
            return 2;
        }
    };
    let v: Value = serde_json::from_str(&s).unwrap_or(Value::Null);
    let tier = Tier::parse(v["tier"].as_str().unwrap_or("quick")).unwrap_or(Tier::Quick);
    let ctx = Ctx {
        tier,
        seed: v["seed"].as_u64().unwrap_or(0),
    };
    let unit = v["unit"].as_u64().unwrap_or(0) as usize;
    let case = v["case"].as_u64().unwrap_or(0) as usize;
    let agg = supervise(driver, &ctx, Some((unit, case)));
    let mut bad = false;
    for viol in &agg.violations {
        println!("REPRODUCED {} : {}", viol.sig, viol.what);
        println!("{}", serde_json::to_string_pretty(&viol.detail).unwrap());
        bad = true;
    }
    for c in &agg.crashes {
        println!("REPRODUCED worker death ({}) on case: {}", c.kind, c.desc);
        bad = true;
    }
    if bad {
        1
    } else {
        println!("not reproduced on the current tree");
        0
    }
}
