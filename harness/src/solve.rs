//! Uniform access to rooc's built-in solver entry points and the solution certificate (M-cert).
use crate::lin::*;
use crate::lp::Rel;
use crate::rat::*;
use num_traits::{Signed, Zero};
use rooc::{LinearModel, LpSolution, MILPValue, SolutionStatus, SolverError};
use serde_json::{Value, json};
use std::panic::{AssertUnwindSafe, catch_unwind};

pub const SOLVERS: [&str; 5] = ["milp", "auto", "microlp-real", "clarabel", "tableau"];

#[derive(Debug, Clone)]
pub struct Sol {
    pub names: Vec<String>,
    pub values: Vec<f64>,
    pub value: f64,
    pub constraints: Vec<(String, f64)>,
    pub status: SolutionStatus,
    pub shadow: Vec<(String, f64)>,
    pub kinds: Vec<&'static str>, // Bool | Int | Real per assignment
}

#[derive(Debug, Clone)]
pub enum Outcome {
    Solved(Sol),
    Infeasible,
    Unbounded,
    /// the solver does not accept this model (domain / objective kind / comparison)
    NotAccepted(String),
    /// any other error kind
    Failed(String, String),
    Panicked(String),
}

impl Outcome {
    pub fn kind(&self) -> String {
        match self {
            Outcome::Solved(_) => "solved".into(),
            Outcome::Infeasible => "Infeasible".into(),
            Outcome::Unbounded => "Unbounded".into(),
            Outcome::NotAccepted(k) => format!("not-accepted({k})"),
            Outcome::Failed(k, _) => format!("error({k})"),
            Outcome::Panicked(_) => "panic".into(),
        }
    }
}

pub fn from_milp_pub(s: LpSolution<MILPValue>) -> Sol {
    from_milp(s)
}

fn from_milp(s: LpSolution<MILPValue>) -> Sol {
    Sol {
        names: s.assignment().iter().map(|a| a.name.clone()).collect(),
        values: s.assignment().iter().map(|a| a.value.into()).collect(),
        kinds: s
            .assignment()
            .iter()
            .map(|a| match a.value {
                MILPValue::Bool(_) => "Bool",
                MILPValue::Int(_) => "Int",
                MILPValue::Real(_) => "Real",
            })
            .collect(),
        value: s.value(),
        constraints: s.constraints().iter().map(|(k, v)| (k.clone(), *v)).collect(),
        status: s.status(),
        shadow: s.shadow_prices().iter().map(|(k, v)| (k.clone(), *v)).collect(),
    }
}

fn from_real(s: LpSolution<f64>) -> Sol {
    Sol {
        names: s.assignment().iter().map(|a| a.name.clone()).collect(),
        values: s.assignment().iter().map(|a| a.value).collect(),
        kinds: s.assignment().iter().map(|_| "Real").collect(),
        value: s.value(),
        constraints: s.constraints().iter().map(|(k, v)| (k.clone(), *v)).collect(),
        status: s.status(),
        shadow: s.shadow_prices().iter().map(|(k, v)| (k.clone(), *v)).collect(),
    }
}

pub fn map_err(e: SolverError) -> Outcome {
    match e {
        SolverError::Infeasible => Outcome::Infeasible,
        SolverError::Unbounded => Outcome::Unbounded,
        SolverError::InvalidDomain { .. } => Outcome::NotAccepted("InvalidDomain".into()),
        SolverError::UnimplementedOptimizationType { .. } => {
            Outcome::NotAccepted("UnimplementedOptimizationType".into())
        }
        SolverError::UnavailableComparison { .. } => Outcome::NotAccepted("UnavailableComparison".into()),
        SolverError::TooLarge { .. } => Outcome::Failed("TooLarge".into(), e.to_string()),
        SolverError::DidNotSolve => Outcome::Failed("DidNotSolve".into(), e.to_string()),
        SolverError::LimitReached => Outcome::Failed("LimitReached".into(), e.to_string()),
        SolverError::Other(ref s) => Outcome::Failed("Other".into(), s.clone()),
    }
}

pub fn run_solver(name: &str, lm: &LinearModel) -> Outcome {
    let r = catch_unwind(AssertUnwindSafe(|| match name {
        "milp" => rooc::solve_milp_lp_problem(lm).map(from_milp),
        "auto" => rooc::auto_solver(lm).map(from_milp),
        "microlp-real" => rooc::solve_real_lp_problem_micro_lp(lm).map(from_real),
        "clarabel" => rooc::solve_real_lp_problem_clarabel(lm).map(from_real),
        "tableau" => rooc::solve_real_lp_problem_slow_simplex(lm, 10000).map(from_real),
        other => panic!("unknown solver {other}"),
    }));
    match r {
        Ok(Ok(s)) => Outcome::Solved(s),
        Ok(Err(e)) => map_err(e),
        Err(p) => Outcome::Panicked(crate::compile::panic_msg(p)),
    }
}

pub fn tol6() -> Q {
    pow10_neg(6)
}

/// M-cert: the returned solution against the model it came from. Err((signature, explanation)).
pub fn certify_solution(xl: &XLin, lm: &LinearModel, sol: &Sol, check_activities: bool) -> Result<Vec<Q>, (String, String)> {
    let n = xl.vars.len();
    // exactly one value per variable
    let mut x: Vec<Option<Q>> = vec![None; n];
    for (name, v) in sol.names.iter().zip(&sol.values) {
        let Some(j) = xl.index_of(name) else {
            return Err(("assignment-unknown-variable".into(), format!("solution assigns unknown variable {name}")));
        };
        if x[j].is_some() {
            return Err(("assignment-duplicate".into(), format!("variable {name} is assigned twice")));
        }
        let Some(qv) = q(*v) else {
            return Err(("assignment-non-finite".into(), format!("variable {name} = {v}")));
        };
        x[j] = Some(qv);
    }
    for (j, v) in x.iter().enumerate() {
        if v.is_none() {
            return Err((
                "assignment-missing-variable".into(),
                format!("variable {} has no value in the solution", xl.vars[j].name),
            ));
        }
    }
    let x: Vec<Q> = x.into_iter().map(|v| v.unwrap()).collect();
    let (viol, what) = xl.max_violation(&x);
    if viol > tol6() {
        let class = if what.contains("bound") {
            "bound-violated"
        } else if what.contains("integral") {
            "integrality-violated"
        } else {
            "row-violated"
        };
        let class = if viol <= pow10_neg(3) {
            "tolerance-level-violation(1e-6..1e-3)".to_string()
        } else {
            format!("{class}(gross)")
        };
        return Err((class, format!("{what} by {} (scaled)", to_f64(&viol))));
    }
    // objective
    let Some(val) = q(sol.value) else {
        return Err(("objective-non-finite".into(), format!("reported objective {}", sol.value)));
    };
    let want = xl.objective_at(&x);
    let mut scale = qmax(&one(), &want.abs());
    for (c, xi) in xl.c.iter().zip(&x) {
        scale = qmax(&scale, &(c * xi).abs());
    }
    if (&val - &want).abs() > tol6() * &scale {
        return Err((
            "objective-value-mismatch".into(),
            format!("reported objective {} but the objective function at the returned values is {}", sol.value, to_f64(&want)),
        ));
    }
    // activities of named rows
    if check_activities {
        for (name, act) in &sol.constraints {
            if name.is_empty() {
                continue;
            }
            let Some(i) = xl.rows.iter().position(|r| r.name == *name) else {
                return Err(("activity-for-unknown-row".into(), format!("activity reported for unknown row '{name}'")));
            };
            let mut lhs = zero();
            let mut sc = one();
            for (a, xi) in xl.rows[i].a.iter().zip(&x) {
                if !a.is_zero() {
                    let t = a * xi;
                    sc = qmax(&sc, &t.abs());
                    lhs += t;
                }
            }
            let Some(qa) = q(*act) else {
                return Err(("activity-non-finite".into(), format!("row {name} activity {act}")));
            };
            if (&qa - &lhs).abs() > tol6() * sc {
                return Err((
                    "activity-mismatch".into(),
                    format!("row '{name}': reported activity {act}, left-hand side at the solution {}", to_f64(&lhs)),
                ));
            }
        }
        let _ = lm;
    }
    Ok(x)
}

pub fn sol_json(sol: &Sol) -> Value {
    json!({
        "assignment": sol.names.iter().zip(&sol.values).map(|(n, v)| format!("{n}={v}")).collect::<Vec<_>>(),
        "value": sol.value,
        "constraints": sol.constraints,
        "status": format!("{:?}", sol.status),
    })
}

pub fn rel_sym(r: Rel) -> &'static str {
    match r {
        Rel::Le => "<=",
        Rel::Ge => ">=",
        Rel::Eq => "=",
    }
}
