#![allow(dead_code)]
mod ast;
mod compile;
mod exprtext;
mod gen_data;
mod gen_lp;
mod gen_model;
mod points;
mod lin;
mod lp;
mod lpfmt;
mod props;
mod rat;
mod runner;
mod solve;
mod text;

use runner::*;

fn drivers() -> Vec<Box<dyn Driver>> {
    vec![
        Box::new(props::c01::C01),
        Box::new(props::c01::C02),
        Box::new(props::c03::C03),
        Box::new(props::c04::C04),
        Box::new(props::c04::C05),
        Box::new(props::c06::C06),
        Box::new(props::c07::C07),
        Box::new(props::c07::C08),
        Box::new(props::c09::C09),
        Box::new(props::c10::C10),
        Box::new(props::c11::C11),
        Box::new(props::c12::C12),
        Box::new(props::c13::C13),
        Box::new(props::c14::C14),
        Box::new(props::c17::C17),
        Box::new(props::c18::C18),
        Box::new(props::c15::C15),
        Box::new(props::c16::C16),
        Box::new(props::c19::C19),
        Box::new(props::c20::C20),
    ]
}

fn find(id: &str) -> Box<dyn Driver> {
    drivers()
        .into_iter()
        .find(|d| d.id().eq_ignore_ascii_case(id))
        .unwrap_or_else(|| {
            eprintln!("unknown property {id}");
            std::process::exit(2)
        })
}

fn seed_from_env() -> u64 {
    std::env::var("VERIF_SEED")
        .ok()
        .and_then(|s| s.parse::<u64>().ok())
        .unwrap_or(1)
}

fn main() {
    // a panic in the code under test is caught per case; keep the default hook quiet in workers
    let args: Vec<String> = std::env::args().collect();
    if args.len() < 2 {
        eprintln!("usage: rv run <id> <quick|thorough> | rv replay <id> <path> | rv list");
        std::process::exit(2);
    }
    match args[1].as_str() {
        "list" => {
            for d in drivers() {
                println!("{}", d.id());
            }
        }
        "run" => {
            let d = find(&args[2]);
            let tier = Tier::parse(args.get(3).map(|s| s.as_str()).unwrap_or("quick")).unwrap_or(Tier::Quick);
            let ctx = Ctx { tier, seed: seed_from_env() };
            std::process::exit(run_check(d.as_ref(), &ctx));
        }
        "replay" => {
            let d = find(&args[2]);
            std::process::exit(run_replay(d.as_ref(), &args[3]));
        }
        "worker" => {
            props::c18::install_panic_recorder();
            let d = find(&args[2]);
            let tier = Tier::parse(&args[3]).unwrap();
            let seed: u64 = args[4].parse().unwrap();
            let shard: usize = args[5].parse().unwrap();
            let nshards: usize = args[6].parse().unwrap();
            let resume_unit: usize = args[7].parse().unwrap();
            let resume_case: usize = args[8].parse().unwrap();
            let only = args.get(9).map(|s| {
                let mut it = s.split(':');
                (it.next().unwrap().parse().unwrap(), it.next().unwrap().parse().unwrap())
            });
            let ctx = Ctx { tier, seed };
            worker_main(d.as_ref(), &ctx, WorkerArgs { shard, nshards, resume_unit, resume_case, only });
        }
        "selftest-lp" => {
            use lp::*;
            use rat::*;
            // min a0+a1+a2+a3 s.t. rows with artificials (phase-1 problem of a small model)
            let rows = vec![
                (vec![qi(3), qi(2), qi(-1), qi(-1), qi(0)], qf(53, 4)),
                (vec![qi(-5), qi(3), qi(1), qi(0), qi(0)], qi(0)),
                (vec![qf(3, 2), qf(-1, 2), qf(-3, 10), qi(0), qi(1)], qi(0)),
                (vec![qi(-4), qi(3), qi(5), qi(0), qi(0)], qi(10)),
            ];
            let mut lp = Lp { vars: vec![], rows: vec![], c: vec![], c0: zero(), maximize: false };
            for _ in 0..9 {
                lp.vars.push(LpVar { lo: Some(zero()), hi: None, int: false });
            }
            for (i, (a, b)) in rows.iter().enumerate() {
                let mut a = a.clone();
                for k in 0..4 {
                    a.push(if k == i { one() } else { zero() });
                }
                lp.rows.push(LpRow { a, rel: Rel::Eq, b: b.clone() });
            }
            lp.c = vec![zero(), zero(), zero(), zero(), zero(), one(), one(), one(), one()];
            match solve_lp(&lp) {
                Ok(LpAnswer::Optimal { x, value }) => println!("optimal {} at {}", show(&value), show_vec(&x)),
                Ok(o) => println!("{}", o.kind()),
                Err(e) => println!("oracle failed: {e}"),
            }
        }
        "try-file" => {
            let text = std::fs::read_to_string(&args[2]).unwrap();
            let parser = rooc::RoocParser::new(text.clone());
            println!("type_check: {:?}", parser.type_check(&vec![], &indexmap::IndexMap::new()));
            match parser.parse_and_transform(vec![], &indexmap::IndexMap::new()) {
                Ok(m) => {
                    println!("MODEL:\n{m}");
                    match rooc::Linearizer::linearize(m) {
                        Ok(l) => println!("LINEAR:\n{l}"),
                        Err(e) => println!("LINEARIZE ERR: {e}"),
                    }
                }
                Err(e) => println!("TRANSFORM ERR:\n{e}"),
            }
            if let Ok(f) = parser.format() {
                println!("FORMATTED:\n{f}");
            }
        }
        "miri-corpus" => {
            // rv miri-corpus <n> <file>: inputs for the Miri layer, one per line, '\n' and '\\' escaped
            let n: usize = args[2].parse().unwrap();
            let lines: Vec<String> = props::c18::miri_corpus(seed_from_env(), n).iter().map(|t| t.replace('\\', "\\\\").replace('\n', "\\n").replace('\r', " ")).collect();
            std::fs::write(&args[3], lines.join("\n") + "\n").unwrap();
            println!("{} inputs written to {}", lines.len(), args[3]);
        }
        "try-stages" => {
            props::c18::install_panic_recorder();
            let text = std::fs::read_to_string(&args[2]).unwrap();
            let (log, panic) = props::c18::run_all_stages(&text);
            println!("{:?}\npanic: {:?}", log, panic);
        }
        "try-expr" => {
            // rv try-expr '<expression>': compile it as an objective and print the tree or the error
            let nm = props::c09::names();
            match props::c09::compiled_objective(&props::c09::program_for(&args[2]), &nm) {
                Ok(e) => println!("{}", e.show(&nm)),
                Err(e) => println!("ERR {e}"),
            }
        }
        "debug-c14" => {
            let seed: u64 = args[2].parse().unwrap();
            let unit: usize = args[3].parse().unwrap();
            let case: usize = args[4].parse().unwrap();
            props::c14::debug_case(seed, unit, case, args.get(5).map(|s| s.as_str()) == Some("thorough"));
        }
        "debug-c12" => {
            // rv debug-c12 <seed> <unit> <case>: dump the builder model and its re-parsed rendering
            let seed: u64 = args[2].parse().unwrap();
            let unit: usize = args[3].parse().unwrap();
            let case: usize = args[4].parse().unwrap();
            props::c12::debug_case(seed, unit, case);
        }
        other => {
            eprintln!("unknown command {other}");
            std::process::exit(2);
        }
    }
}
