//! G-model: random source models over the expression language of C01/C02, with directed strata.
use crate::ast::*;
use rand::Rng;
use rand::seq::SliceRandom;
use rand_chacha::ChaCha8Rng;

#[derive(Debug, Clone, Copy, PartialEq, Eq)]
pub enum Stratum {
    /// everything mixed
    Mixed,
    /// only + - * / by constants: the source itself is an LP/MILP
    Affine,
    /// abs/min/max heavy, no logic
    Piecewise,
    /// logic heavy (assertions, logic values inside arithmetic)
    Logic,
    /// variables declared unbounded, bounds only derivable from extra rows
    DerivedBounds,
    /// Boolean / integer variables whose range is tightened only by rows (pruning interplay)
    TightenedDiscrete,
}

pub const STRATA: [Stratum; 6] = [
    Stratum::Mixed,
    Stratum::Affine,
    Stratum::Piecewise,
    Stratum::Logic,
    Stratum::DerivedBounds,
    Stratum::TightenedDiscrete,
];

const CONSTS: [f64; 16] = [
    -3.0, -2.0, -1.0, -0.5, 0.0, 0.5, 1.0, 1.0, 2.0, 2.0, 3.0, 1.5, 0.25, 7.0, 1.9, -4.0,
];
const SCALES: [f64; 12] = [-3.0, -2.0, -1.0, -0.5, 0.5, 1.0, 2.0, 3.0, 1.5, 4.0, -1.5, 0.0];
const DIVS: [f64; 8] = [-4.0, -2.0, -1.0, -0.5, 0.5, 2.0, 4.0, 3.0];

pub struct G<'a> {
    pub rng: &'a mut ChaCha8Rng,
    pub types: Vec<VT>,
    pub stratum: Stratum,
    pub budget: i32,
}

impl<'a> G<'a> {
    fn bools(&self) -> Vec<usize> {
        (0..self.types.len())
            .filter(|i| self.types[*i] == VT::Bool)
            .collect()
    }
    fn numerics(&self) -> Vec<usize> {
        (0..self.types.len())
            .filter(|i| self.types[*i] != VT::Bool)
            .collect()
    }
    fn allow_piecewise(&self) -> bool {
        !matches!(self.stratum, Stratum::Affine)
    }
    fn allow_logic(&self) -> bool {
        !matches!(self.stratum, Stratum::Affine | Stratum::Piecewise) && !self.bools().is_empty()
    }

    fn konst(&mut self) -> E {
        E::Num(*CONSTS.choose(self.rng).unwrap())
    }

    fn num_leaf(&mut self) -> E {
        let nums = self.numerics();
        let bools = self.bools();
        let r = self.rng.gen_range(0..10);
        if r < 6 && !nums.is_empty() {
            E::Var(*nums.choose(self.rng).unwrap())
        } else if r < 7 && !bools.is_empty() {
            E::Var(*bools.choose(self.rng).unwrap())
        } else if !nums.is_empty() && r < 8 {
            E::Var(*nums.choose(self.rng).unwrap())
        } else {
            self.konst()
        }
    }

    pub fn arith(&mut self, depth: u32) -> E {
        self.budget -= 1;
        if depth == 0 || self.budget <= 0 {
            return self.num_leaf();
        }
        let pw = self.allow_piecewise();
        let lg = self.allow_logic();
        let pw_w = match self.stratum {
            Stratum::Piecewise | Stratum::TightenedDiscrete | Stratum::DerivedBounds => 8,
            _ => 4,
        };
        let mut choices: Vec<(u32, u32)> = vec![(0, 3), (1, 4), (2, 3), (3, 4), (4, 1), (5, 1)];
        if pw {
            choices.push((6, pw_w));
            choices.push((7, pw_w));
            choices.push((8, pw_w));
        }
        if lg {
            choices.push((9, if self.stratum == Stratum::Logic { 6 } else { 2 }));
        }
        let total: u32 = choices.iter().map(|c| c.1).sum();
        let mut pick = self.rng.gen_range(0..total);
        let mut kind = 0;
        for (k, w) in choices {
            if pick < w {
                kind = k;
                break;
            }
            pick -= w;
        }
        match kind {
            0 => self.num_leaf(),
            1 => E::add(self.arith(depth - 1), self.arith(depth - 1)),
            2 => E::sub(self.arith(depth - 1), self.arith(depth - 1)),
            3 => {
                let c = E::Num(*SCALES.choose(self.rng).unwrap());
                let e = self.arith(depth - 1);
                if self.rng.gen_bool(0.7) {
                    E::mul(c, e)
                } else {
                    E::mul(e, c)
                }
            }
            4 => E::div(
                self.arith(depth - 1),
                E::Num(*DIVS.choose(self.rng).unwrap()),
            ),
            5 => E::Neg(b(self.arith(depth - 1))),
            6 => E::Abs(b(self.arith(depth - 1))),
            7 | 8 => {
                let n = match self.rng.gen_range(0..20) {
                    0..=10 => 2,
                    11..=17 => 3,
                    _ => 4,
                };
                let mut ops: Vec<E> = (0..n).map(|_| self.arith(depth - 1)).collect();
                if self.rng.gen_bool(0.25) {
                    // an operand that is a constant (often dominated, hence pruned), at any position
                    let k = self.konst();
                    let at = self.rng.gen_range(0..n);
                    ops[at] = k;
                }
                if kind == 7 { E::Min(ops) } else { E::Max(ops) }
            }
            _ => self.logic(depth - 1),
        }
    }

    fn logic_leaf(&mut self) -> E {
        let bools = self.bools();
        if bools.is_empty() || self.rng.gen_bool(0.04) {
            return E::Num(if self.rng.gen_bool(0.5) { 1.0 } else { 0.0 });
        }
        E::Var(*bools.choose(self.rng).unwrap())
    }

    pub fn logic(&mut self, depth: u32) -> E {
        self.budget -= 1;
        if depth == 0 || self.budget <= 0 {
            return self.logic_leaf();
        }
        match self.rng.gen_range(0..12) {
            0 | 1 => self.logic_leaf(),
            2 | 3 => {
                let n = if self.rng.gen_bool(0.7) { 2 } else { 3 };
                E::And((0..n).map(|_| self.logic(depth - 1)).collect())
            }
            4 | 5 => {
                let n = if self.rng.gen_bool(0.7) { 2 } else { 3 };
                E::Or((0..n).map(|_| self.logic(depth - 1)).collect())
            }
            6 | 7 => E::Not(b(self.logic(depth - 1))),
            8 => E::Xor(b(self.logic(depth - 1)), b(self.logic(depth - 1))),
            9 | 10 => E::Implies(b(self.logic(depth - 1)), b(self.logic(depth - 1))),
            _ => E::Iff(b(self.logic(depth - 1)), b(self.logic(depth - 1))),
        }
    }
}

fn gen_type(rng: &mut ChaCha8Rng, stratum: Stratum) -> VT {
    let half = |rng: &mut ChaCha8Rng, lo: i32, hi: i32| rng.gen_range(lo * 2..=hi * 2) as f64 / 2.0;
    match stratum {
        Stratum::DerivedBounds => match rng.gen_range(0..6) {
            0 => VT::Bool,
            1 => VT::NonNeg(0.0, f64::INFINITY),
            2 => VT::Real(f64::NEG_INFINITY, half(rng, -1, 4)),
            3 => VT::Real(half(rng, -4, 1), f64::INFINITY),
            _ => VT::Real(f64::NEG_INFINITY, f64::INFINITY),
        },
        Stratum::TightenedDiscrete => match rng.gen_range(0..6) {
            0 | 1 | 2 => VT::Bool,
            3 | 4 => {
                let lo = rng.gen_range(-3..2);
                VT::Int(lo, lo + rng.gen_range(1..5))
            }
            _ => {
                let lo = half(rng, -3, 1);
                VT::Real(lo, lo + half(rng, 0, 5))
            }
        },
        _ => match rng.gen_range(0..12) {
            0 | 1 | 2 => VT::Bool,
            3 | 4 | 5 => {
                let lo = rng.gen_range(-3..2);
                VT::Int(lo, lo + rng.gen_range(0..5))
            }
            6 | 7 | 8 => {
                let lo = half(rng, -4, 1);
                VT::Real(lo, lo + half(rng, 0, 6))
            }
            9 => {
                let lo = half(rng, 0, 2);
                VT::NonNeg(lo, lo + half(rng, 0, 5))
            }
            10 => VT::NonNeg(0.0, f64::INFINITY),
            _ => {
                if rng.gen_bool(0.5) {
                    VT::Real(f64::NEG_INFINITY, f64::INFINITY)
                } else {
                    VT::Real(half(rng, -4, 1), f64::INFINITY)
                }
            }
        },
    }
}

fn rel(rng: &mut ChaCha8Rng) -> Cmp {
    [Cmp::Le, Cmp::Le, Cmp::Ge, Cmp::Ge, Cmp::Eq][rng.gen_range(0..5)]
}

pub fn gen_model(rng: &mut ChaCha8Rng, stratum: Stratum) -> M {
    let n = rng.gen_range(1..=4);
    let mut types: Vec<VT> = (0..n).map(|_| gen_type(rng, stratum)).collect();
    if matches!(stratum, Stratum::Logic | Stratum::TightenedDiscrete) && !types.contains(&VT::Bool) {
        types[0] = VT::Bool;
    }
    if stratum == Stratum::Logic && n >= 2 {
        types[1] = VT::Bool;
    }
    let name_style = rng.gen_range(0..4);
    let pool = ["x", "y", "z", "w"];
    let names: Vec<String> = (0..n)
        .map(|i| match name_style {
            0 => pool[i].to_string(),
            1 => format!("x_{i}"),
            2 => format!("v{i}"),
            _ => ["a", "b", "c", "d"][i].to_string(),
        })
        .collect();
    let ncons = rng.gen_range(0..=4);
    let mut cons = vec![];
    // bound rows first for the derived-bounds strata
    if matches!(stratum, Stratum::DerivedBounds | Stratum::TightenedDiscrete) {
        for i in 0..n {
            let (lo, hi) = types[i].bounds();
            if stratum == Stratum::DerivedBounds {
                if !lo.is_finite() && rng.gen_bool(0.85) {
                    let c = rng.gen_range(-8..=0) as f64 / 2.0;
                    let scale = [1.0, 2.0, -1.0, 0.5][rng.gen_range(0..4)];
                    // scale * x >= scale * c   (or <= for a negative scale)
                    let lhs = if scale == 1.0 { E::Var(i) } else { E::mul(E::Num(scale), E::Var(i)) };
                    let cmp = if scale > 0.0 { Cmp::Ge } else { Cmp::Le };
                    cons.push(Con { name: None, kind: CKind::Cmp(lhs, cmp, E::Num(scale * c)) });
                }
                if !hi.is_finite() && rng.gen_bool(0.85) {
                    let c = rng.gen_range(0..=10) as f64 / 2.0;
                    if rng.gen_bool(0.5) {
                        cons.push(Con { name: None, kind: CKind::Cmp(E::Var(i), Cmp::Le, E::Num(c)) });
                    } else {
                        cons.push(Con { name: None, kind: CKind::Cmp(E::Num(c), Cmp::Ge, E::Var(i)) });
                    }
                }
            } else if rng.gen_bool(0.6) {
                // tighten a discrete / bounded variable through a row only
                let mid = if types[i] == VT::Bool {
                    [0.0, 0.5, 1.0, 0.25][rng.gen_range(0..4)]
                } else {
                    let steps = ((hi - lo) * 2.0) as i32;
                    lo + rng.gen_range(0..=steps.max(0)) as f64 / 2.0
                };
                let cmp = if rng.gen_bool(0.5) { Cmp::Le } else { Cmp::Ge };
                let form = rng.gen_range(0..4);
                let mut g = G { rng, types: types.clone(), stratum, budget: 4 };
                let kind = match form {
                    0 => CKind::Cmp(E::Var(i), cmp, E::Num(mid)),
                    1 => CKind::Cmp(E::Max(vec![E::Var(i), g.arith(1)]), Cmp::Le, E::Num(mid)),
                    2 => CKind::Cmp(E::Min(vec![E::Var(i), g.arith(1)]), Cmp::Ge, E::Num(mid)),
                    _ => CKind::Cmp(E::Abs(b(E::Var(i))), Cmp::Le, E::Num(mid.abs())),
                };
                cons.push(Con { name: None, kind });
            }
        }
    }
    for k in 0..ncons {
        let mut g = G { rng, types: types.clone(), stratum, budget: 12 };
        let depth = g.rng.gen_range(1..=3);
        let as_logic = g.allow_logic()
            && g.rng.gen_range(0..10) < if stratum == Stratum::Logic { 7 } else { 2 };
        let kind = if as_logic {
            let e = g.logic(depth);
            match g.rng.gen_range(0..6) {
                0 => CKind::Cmp(e, Cmp::Eq, E::Num(1.0)),
                1 => CKind::Cmp(e, Cmp::Eq, E::Num(0.0)),
                2 => CKind::Cmp(e, Cmp::Ge, E::Num(1.0)),
                3 => CKind::Cmp(E::Num(0.0), Cmp::Ge, e),
                _ => CKind::Assert(e),
            }
        } else {
            let l = g.arith(depth);
            let r = if g.rng.gen_bool(0.7) { g.konst() } else { g.arith(depth.min(2) - 1) };
            CKind::Cmp(l, rel(g.rng), r)
        };
        let name = if rng.gen_bool(0.35) {
            Some(match rng.gen_range(0..4) {
                0 => format!("c{k}"),
                1 => "cap".to_string(),
                2 => format!("row_{k}"),
                _ => format!("k{k}"),
            })
        } else {
            None
        };
        cons.push(Con { name, kind });
    }
    let sense = match rng.gen_range(0..9) {
        0..=3 => Sense::Min,
        4..=7 => Sense::Max,
        _ => Sense::Satisfy,
    };
    let obj = if sense == Sense::Satisfy {
        E::Num(0.0)
    } else {
        let mut g = G { rng, types: types.clone(), stratum, budget: 12 };
        let d = g.rng.gen_range(1..=3);
        g.arith(d)
    };
    M { names, types, cons, sense, obj }
}
