#!/bin/bash
# Sanitizer layer of C18 (thorough tier): N short inputs of the C18 corpus through
# parse / format / type-check / transform / linearize / standardise / tableau simplex under Miri,
# sharded over 16 processes. Prints a summary; patches evidence/C18.json (coverage.miri).
# exit 0: no undefined behaviour / abort observed; 1: observed (VIOLATION line); 2: inconclusive.
set -u
cd "$(dirname "$0")"
ROOT="$(cd .. && pwd)"
N="${1:-192}"
SHARDS=16
export CARGO_NET_OFFLINE=true
export MIRIFLAGS="-Zmiri-disable-isolation"
LOGS="$ROOT/miri/target/logs"
rm -rf "$LOGS"; mkdir -p "$LOGS"
CORPUS="$ROOT/miri/target/corpus.txt"
"$ROOT/harness/target/release/rv" miri-corpus "$N" "$CORPUS" >/dev/null || { echo "INCONCLUSIVE property=C18 miri: corpus generation failed"; exit 2; }
: > "$LOGS/empty.txt"
# one build, then the shards
if ! timeout 1800 cargo +nightly miri run --offline -- "$LOGS/empty.txt" 0 1 >"$LOGS/build.log" 2>&1; then
  echo "INCONCLUSIVE property=C18 miri: the Miri build did not succeed (see miri/target/logs/build.log)"
  tail -n 5 "$LOGS/build.log"
  exit 2
fi
start=$(date +%s)
for k in $(seq 0 $((SHARDS-1))); do
  ( timeout 2400 cargo +nightly miri run --offline -- "$CORPUS" "$k" "$SHARDS" >"$LOGS/shard_$k.log" 2>&1; echo "EXIT $?" >>"$LOGS/shard_$k.log" ) &
done
wait
end=$(date +%s)
python3 - "$ROOT" "$N" "$SHARDS" "$((end-start))" <<'PY'
import sys, json, re, os, hashlib, shutil
root, n, shards, wall = sys.argv[1], int(sys.argv[2]), int(sys.argv[3]), int(sys.argv[4])
logs = os.path.join(root, "miri/target/logs")
done = 0; panics = 0; stages = {}; ub = []; incomplete = []
for k in range(shards):
    t = open(os.path.join(logs, f"shard_{k}.log"), errors="replace").read()
    m = re.search(r"MIRI-SHARD \d+ inputs=(\d+) panics=(\d+) last_stage=\{(.*)\}", t)
    if "Undefined Behavior" in t or "error: abnormal termination" in t or "memory leaked" in t:
        ub.append(k)
    elif m:
        done += int(m.group(1)); panics += int(m.group(2))
        for name, c in re.findall(r'"(\w+)": (\d+)', m.group(3)):
            stages[name] = stages.get(name, 0) + int(c)
    else:
        incomplete.append(k)
summary = {"tool": "cargo +nightly miri run (-Zmiri-disable-isolation)", "inputs_requested": n, "inputs_completed": done, "shards": shards,
           "last_stage_reached": stages, "panics_caught": panics, "undefined_behaviour_reports": len(ub),
           "incomplete_shards": incomplete, "wall_s": wall}
ev = os.path.join(root, "evidence/C18.json")
try:
    e = json.load(open(ev)); e["coverage"]["miri"] = summary; json.dump(e, open(ev, "w"), indent=1)
except Exception as ex:
    print("note: evidence/C18.json not patched:", ex)
print("C18 miri layer:", json.dumps(summary))
if ub:
    os.makedirs(os.path.join(root, "replays/C18"), exist_ok=True)
    for k in ub:
        src = os.path.join(logs, f"shard_{k}.log")
        h = hashlib.sha1(open(src, "rb").read()).hexdigest()[:16]
        dst = os.path.join(root, f"replays/C18/miri-{h}.log"); shutil.copy(src, dst)
        print(f"VIOLATION property=C18 replay={dst}")
        print("  signature: miri-report"); 
    sys.exit(1)
if panics:
    print("note: panics under Miri are judged by the native C18 run, which executes the same inputs")
if incomplete or done < n * 0.9:
    print(f"INCONCLUSIVE property=C18 miri: {done}/{n} inputs completed, incomplete shards {incomplete}")
    sys.exit(2)
sys.exit(0)
PY
