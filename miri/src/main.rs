//! C18, sanitizer layer: a slice of the C18 corpus pushed through the compiler stages under
//! Miri (undefined-behaviour interpreter). Usage: rv-miri <corpus file> <shard> <shards>
//! The corpus holds one input per line with '\n' and '\\' escaped.
use indexmap::IndexMap;
use rooc::{Linearizer, RoocParser};
use std::panic::{catch_unwind, AssertUnwindSafe};

fn unescape(line: &str) -> String {
    let mut out = String::new();
    let mut it = line.chars();
    while let Some(c) = it.next() {
        if c == '\\' {
            match it.next() {
                Some('n') => out.push('\n'),
                Some('\\') => out.push('\\'),
                Some(o) => {
                    out.push('\\');
                    out.push(o)
                }
                None => out.push('\\'),
            }
        } else {
            out.push(c);
        }
    }
    out
}

fn stages(src: &str) -> (&'static str, bool) {
    let mut reached = "parse";
    let r = catch_unwind(AssertUnwindSafe(|| {
        let parser = RoocParser::new(src.to_string());
        let pre = match parser.parse() {
            Ok(p) => p,
            Err(e) => {
                let _ = e.to_string_from_source(src);
                return;
            }
        };
        reached = "format";
        let _ = parser.format();
        let _ = pre.to_string();
        reached = "type_check";
        let _ = parser.type_check(&vec![], &IndexMap::new());
        reached = "transform";
        let model = match parser.parse_and_transform(vec![], &IndexMap::new()) {
            Ok(m) => m,
            Err(_) => return,
        };
        let _ = model.to_string();
        reached = "linearize";
        let lm = match Linearizer::linearize(model) {
            Ok(l) => l,
            Err(e) => {
                let _ = e.to_string();
                return;
            }
        };
        let _ = lm.to_string();
        let _ = lm.to_lp_format();
        reached = "standardise";
        let std = match lm.clone().into_standard_form() {
            Ok(s) => s,
            Err(_) => return,
        };
        reached = "tableau";
        if let Ok(mut t) = std.into_tableau() {
            reached = "simplex";
            let _ = t.solve(60);
        }
    }));
    (reached, r.is_err())
}

fn main() {
    let args: Vec<String> = std::env::args().collect();
    let corpus = std::fs::read_to_string(&args[1]).expect("corpus");
    let shard: usize = args[2].parse().unwrap();
    let shards: usize = args[3].parse().unwrap();
    let mut n = 0;
    let mut hist: std::collections::BTreeMap<&'static str, usize> = Default::default();
    let mut panics = 0;
    for (i, line) in corpus.lines().enumerate() {
        if i % shards != shard {
            continue;
        }
        let src = unescape(line);
        let (reached, panicked) = stages(&src);
        *hist.entry(reached).or_default() += 1;
        if panicked {
            panics += 1;
            println!("PANIC input {i} at {reached}");
        }
        n += 1;
    }
    println!("MIRI-SHARD {shard} inputs={n} panics={panics} last_stage={hist:?}");
}
